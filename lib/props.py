"""Per-property check definitions (what to build, how many cases per tier, evidence rule)."""
import json
import os
import time

import driver as D

COMMON_ASSUME = [
    "the harness' generators, canonical dump (Debug formatting: shortest round-trip floats, -0.0 and NaN visible) and reference models are correct",
    "rustc/LLVM compile the harness and the library faithfully; verdict covers only the executions produced",
]

# property -> config for the standard (in-process oracle, sharded) checks
STANDARD = {
    "C02": {
        "variants": ["rel"],
        "quick": 1600,
        "thorough": 40000,
        "rule": "case = (generated/mutated/real map text, reachable mode, Difficulty without passed_objects); gradual sequence vs "
                "one-shot passed_objects(i) for every prefix (sampled above 150), final vs full, len vs count, passed(n+1) vs full. "
                "non-trivial = sequence has >= 2 values; distinct = distinct (map text, settings, mode) digests",
        "required": {"class:taiko-first2-not-both-hits": 1, "class:short-sequence(<=3)": 1, "mode:osu": 1, "mode:taiko": 1,
                     "mode:catch": 1, "mode:mania": 1},
    },
    "C03": {
        "variants": ["rel"],
        "quick": 12000,
        "thorough": 300000,
        "rule": "case = (map text, reachable mode, Difficulty without passed_objects, random schedule of next/nth(k)/last with random "
                "consistent/inconsistent score states); after every call the result is compared with the one-shot mode-specific "
                "Performance on the same map with passed_objects(cursor) and that state, None iff nothing remained, len() == remaining. "
                "non-trivial = comparison at cursor >= 2; distinct = (map, settings, cursor, state) digests",
        "required": {"mode:osu": 1, "mode:taiko": 1, "mode:catch": 1, "mode:mania": 1},
    },
    "C04": {
        "variants": ["rel"],
        "quick": 6000,
        "thorough": 150000,
        "rule": "case = (map text, reachable mode, Difficulty incl. passed_objects, score specification); 21 entry points "
                "(Performance::new(map|&map|attrs|perf_attrs), attrs.performance(), mode-specific new/try_new/from, try_mode, "
                "mode_or_ignore) each followed by .difficulty(D)+score must equal Performance::new(&converted); embedded "
                "difficulty attributes must equal Difficulty::calculate. non-trivial = map has >= 2 counted objects",
        "required": {"class:convert": 1, "class:passed_objects": 1, "mode:osu": 1, "mode:taiko": 1, "mode:catch": 1, "mode:mania": 1},
    },
    "C07": {
        "variants": ["rel"],
        "quick": 4000,
        "thorough": 100000,
        "rule": "case = map of any native mode (15% already converted) x all 4 target modes x random settings; convert/convert_ref/"
                "convert_mut equal or same error, identity borrowed, convertibility predicate, convert flags, re-conversion rejected, "
                "calculate_for_mode/strains_for_mode/gradual difficulty/gradual performance/Performance::try_mode/mode_or_ignore/"
                "TryFrom<OsuPerformance> on the source equal the calculation on the explicitly converted map. "
                "non-trivial = converted map has >= 2 objects",
        "required": {"class:converted": 1, "class:identity": 1, "class:conversion-rejected": 1, "class:source-already-converted": 1},
    },
    "C08": {
        "variants": ["rel"],
        "quick": 4000,
        "thorough": 100000,
        "rule": "case = (map, reachable mode, base settings, score spec); (1) the same game-allowed legacy combination as u32/"
                "GameModsLegacy/GameModsIntermode/&GameModsIntermode/lazer GameMods must give equal difficulty, strains, performance "
                "(via Difficulty::mods and via Performance::mods) and attribute-builder output; (2) lazer DT/NC/HT/DC with speed_change r "
                "vs default mod + clock_rate(r); (3) lazer DifficultyAdjust(field=v) vs Difficulty::field(v as f32,false) with "
                "NM/HR/EZ/DT/HT combos. Mod sets the game cannot produce (EZ+HR, DT+HT, two key mods) are not generated. "
                "non-trivial = map has >= 2 objects",
        "required": {"rate:NC": 1, "rate:DC": 1, "rate:DT": 1, "rate:HT": 1, "da:ar": 1, "da:cs": 1, "da:hp": 1, "da:od": 1,
                     "repr:Lazer": 1, "repr:Intermode": 1},
    },
    "C15": {
        "variants": ["rel", "dbg"],
        "quick": 6000,
        "thorough": 150000,
        "rule": "case = (map, reachable mode, settings); S = plain next() sequence; 4 random programs over {next, nth(k), len/size_hint, "
                "by_ref().step_by, skip, take, count, last, pokes after exhaustion} with k in {0,1,2,small,rem-1,rem,rem+1,usize::MAX} "
                "against the positional model, zip of two fresh instances, and a gradual-performance schedule vs the next-only run; "
                "both release and debug (overflow-checked) builds. non-trivial = |S| >= 2; distinct = (map, settings, program) digests",
        "required": {"class:short-sequence(<=3)": 1, "mode:osu": 1, "mode:taiko": 1, "mode:catch": 1, "mode:mania": 1},
    },
    "C09": {
        "variants": ["rel"],
        "quick": 6000,
        "thorough": 150000,
        "rule": "case = (realistic map incl. empty/single-object/all-spinner/stacked/dense/sparse profiles, reachable mode, game-reachable "
                "settings: clock in [0.5,2], overrides in [0,11]) x 8 passed_objects prefixes x 3 score states consistent with the counts; "
                "visitor over every f64 of difficulty attributes, strains and performance attributes: finite; ratings/pp/components >= 0; "
                "ScoreState accuracy in [0,1]; a play over zero objects has pp == 0. non-trivial = map has >= 2 objects",
        "required": {"class:empty-map": 1, "class:single-object": 1, "class:all-spinner": 1, "class:zero-objects-play": 1},
    },
    "C12": {
        "variants": ["rel"],
        "quick": 8000,
        "thorough": 200000,
        "rule": "case = attribute shape from public struct literals (60% small: <= 6 per count, else up to thousands; mania <= 120) x 200 "
                "(400 thorough) random inputs: subsets of accuracy/combo/misses/hit results with values 0..N+2, both priorities, "
                "stable/lazer/CL, passed_objects; clauses S1 no panic, S2 misses, S3 sum and kept results when the provided ones fit, "
                "S4 combo bound and kept, S5 generate twice, S6 calculate() == explicit generated state. distinct = (shape, input) digests",
        "required": {"class:small-shape": 1, "class:large-shape": 1},
    },
    "C13": {
        "variants": ["rel"],
        "quick": 400,
        "thorough": 2400,
        "exhaustive_prefix": True,
        "rule": "cases 0..K-1 enumerate ALL small shapes (quick: osu <= 5 objects with 0-3 sliders, 0-2 ticks, 0-2 spinners; taiko combo 0-8; "
                "catch fruits 0-3 x droplets 0-2 x tiny 0-4; mania objects 0-4 x holds 0-2; thorough: 8 / 12 / 5x3x6 / 6x3) x every miss count "
                "0..N+1 x accuracy grid 0..100 step 0.25 plus every exactly achievable accuracy +-1e-7 x priorities x stable/lazer/lazer+CL; "
                "remaining cases are sampled large shapes. oracle enumerates all hit-result distributions with the same misses using the "
                "crate's public ScoreState::accuracy. distinct = distinct shapes with >= 1 object",
        "required": {"class:exhaustive-shape": 1, "class:sampled-shape": 1},
    },
    "C14": {
        "variants": ["rel"],
        "quick": 6000,
        "thorough": 150000,
        "rule": "case = (map, reachable mode, mods incl. mirror/HR reflections, key mods, HO/IN/RD) with n over 0..total+2 (sampled above 40); "
                "independent reference counts from public fields of the converted map; counted(n) == min(n,total); counts and max_combo "
                "non-decreasing; n >= total == unlimited; is_convert flag. non-trivial = total units >= 2",
        "required": {"class:convert": 1, "mode:osu": 1, "mode:taiko": 1, "mode:catch": 1, "mode:mania": 1},
    },
    "C16": {
        "variants": ["rel"],
        "quick": 6000,
        "thorough": 150000,
        "rule": "case = (non-suspicious map incl. hour-long gaps and objects before t=0, reachable mode, settings incl. passed_objects and "
                "HO/IN/RD); peaks finite and >= 0, equal section counts across skills, re-aggregation (drop zeros, sort desc, sum peak*w^i) "
                "reproduces catch stars (0.94, sqrt*4.59), mania stars (0.9, *0.018), osu flashlight (plain sum, sqrt*0.0675, TD/RX/AP) "
                "within 4 ulp. non-trivial = >= 2 sections",
        "required": {"class:zero-run>=1000": 1, "class:objects-before-time-zero": 1, "mode:osu": 1, "mode:catch": 1, "mode:mania": 1},
    },
    "C17": {
        "variants": ["rel"],
        "quick": 1500,
        "thorough": 30000,
        "rule": "case = builder configuration (mode, is_convert, NM/HR/EZ/DT/HT combos or lazer DA/rate mods, clock none or 40 log-spaced in "
                "[0.01,100]); A1 build().hit_windows == hit_windows() for AR and OD over [-20,20] step 0.25 x both flags; A2 with_mods=true "
                "round trip on [0,10]; A3 windows non-increasing over the grid; A4 window(r)*r == window(1) (not mania great window); "
                "A5 HR >= NM >= EZ values, windows reversed; A6 stored AR/HP/OD/hit windows of a random map == builder output. "
                "distinct = configuration digests",
        "required": {"A6_checks": 1, "mode:osu": 1, "mode:taiko": 1, "mode:catch": 1, "mode:mania": 1},
    },
    "C18": {
        "variants": ["rel"],
        "quick": 6000,
        "thorough": 150000,
        "rule": "case = (map, mode, random setter program of 1-8 setters with in/out-of-range/infinite values, score spec); B1 Performance "
                "setters (enum, owned, mode-specific builder, from attributes) == difficulty(Difficulty setters); permutation/last-wins; "
                "B2 inspect round trip; B3 clamps observed through inspect and through results; B4 documented no-op setters per mode. "
                "NaN arguments excluded. non-trivial = map has >= 2 objects",
        "required": {"noop_checks": 1, "class:mode-builder-lacks-setter": 1},
    },
    "C19": {
        "variants": ["rel"],
        "quick": 6000,
        "thorough": 120000,
        "rule": "case = non-suspicious osu!standard map (all profiles, versions <8 and >=8) converted to taiko, catch, mania without key mod "
                "and with 3 (thorough: all 10) key mods in legacy/intermode/lazer form; objects sorted, durations finite >= 0, control "
                "points strictly increasing (when the source's are), taiko one sound per object, mania key count and raw column "
                "floor(x/(512/K)) <= K-1 with x >= 0, catch equals source except mode/is_convert. non-trivial = source has >= 2 objects",
        "required": {"class:version<8": 1, "class:version>=8": 1, "class:mania-key-mod": 1, "class:taiko-slider-split-into-hits": 1},
    },
    "C05": {
        "variants": ["rel", "dbg"],
        "quick": 6000,
        "thorough": 150000,
        "budget": 30,
        "mem": 4,
        "timeout": 3000,
        "rule": "case = text from G-gram (all profiles), G-mut, G-real windows or decodable noise; judged only if it decodes, passes "
                "check_suspicion, has <= 400 objects, <= 100 repeats and <= 20000px per slider and the static nested-object estimate is "
                "<= 50000 (others counted as out_of_domain); sweep per reachable mode: 3 conversion entry points, difficulty, strains, "
                "attribute builder, gradual difficulty with random next/nth strides and pokes after exhaustion, gradual performance with "
                "random states, Performance with accuracy/hit-result subsets/misses/combos up to 2N+2 from map and attributes, "
                "generate_state, try_mode, bpm; settings over the documented ranges (clock 0.01..100, overrides -20..20). Oracles: panic "
                "hook, worker exit status, 30 CPU-s per API call watchdog (confirmed on an isolated re-run), 4 GiB address space. The "
                "debug (overflow-checked) build sweeps only maps inside the realistic domain (times in [0,3h], coordinates near the "
                "playfield) with game-reachable settings. non-trivial = in-domain map with >= 2 objects",
        "required": {"domain:realistic": 1, "domain:adversarial-only": 1, "sweep:osu": 1, "sweep:taiko": 1, "sweep:catch": 1,
                     "sweep:mania": 1},
        "assume": ["non-termination is restated as bounded progress: one API call may use at most 30 CPU seconds",
                   "slider work is bounded is made precise by the static estimate in harness/rpv/src/maps.rs::slider_work"],
    },
    "C06": {
        "variants": ["rel"],
        "quick": 40000,
        "thorough": 1500000,
        "rule": "case = byte string: random noise, UTF-16 LE/BE with/without BOM, invalid UTF-8, CR/NUL mixes, 100 kB lines, byte flips; "
                "grammar profiles limits/ties/slider-zoo with numbers at and beyond every parser limit and NaN/inf/-0 tokens; mutated "
                "fixtures (shuffled/duplicated/truncated/corrupted lines, moved section headers); timing-point torture (0/-0/duplicate "
                "times, NaN beat lengths); pairing files (unique (x,y) and known sound per line, massive start-time ties, shuffled). "
                "Oracles: no panic, Ok or io::Error; objects sorted; one sound per object and still the written sound (osu/taiko/catch); "
                "control points strictly increasing; all floats finite and inside the documented clamps; from_bytes == from_path "
                "(== from_str for UTF-8). Every 8th case drives TandemSorter against the stable reference sort and osu_legacy on "
                "pre-sorted tie-heavy slices up to 10^4. non-trivial = decoded map has >= 2 objects; distinct = byte-string digests",
        "required": {"pairing_maps": 1, "paths:non-utf8": 1, "sorter:tandem": 1, "src:timing-torture": 1, "src:bytes": 1},
    },
}


def standard(prop, tier, seed):
    cfg = STANDARD[prop]
    t0 = time.time()
    agg = D.Agg()
    total = cfg[tier]
    exhaustive_n = None
    for variant in cfg["variants"]:
        binp = D.build(variant)
        if cfg.get("exhaustive_prefix"):
            import subprocess
            out = subprocess.run([binp, prop, "--tier", tier, "--count-cases"], capture_output=True, text=True).stdout
            try:
                exhaustive_n = int(out.split()[1])
            except (IndexError, ValueError):
                raise D.Inconclusive(f"cannot determine the size of the enumerated space: {out!r}")
            total = max(total, exhaustive_n + 50)
        D.run_sharded(agg, binp, prop, seed, total, tier, extra=cfg.get("params"), timeout=cfg.get("timeout", 1800),
                      budget=cfg.get("budget"), mem=cfg.get("mem"), variant=variant)
    return D.conclude(prop, tier, seed, agg, t0, cfg["rule"], COMMON_ASSUME + cfg.get("assume", []),
                      required=cfg.get("required"), replay_extra=cfg.get("params"),
                      extra_cov={"variants": cfg["variants"], **({"exhaustive_space_size": exhaustive_n,
                                 "exhaustive_note": "cases 0..exhaustive_space_size-1 enumerate the small-shape space completely; "
                                 "the rest of the cases are sampled"} if exhaustive_n else {})},
                      exhaustive=True if exhaustive_n else cfg.get("exhaustive"))


def replay(prop, path):
    rec = json.load(open(path))
    if rec.get("property") != prop:
        print(f"replay file is for {rec.get('property')}, not {prop}")
        return 3
    fn = REPLAYERS.get(prop, replay_standard)
    return fn(prop, rec)


def replay_standard(prop, rec):
    variant = rec.get("variant", "rel")
    if variant not in D.VARIANTS:
        variant = "rel"
    binp = D.build(variant)
    os.makedirs(D.RUN, exist_ok=True)
    logp = os.path.join(D.RUN, f"{prop}-replay.log")
    r = D.run_worker(binp, prop, rec["seed"], rec["case"], 1, rec.get("tier", "quick"), logp, rec.get("params") or {})
    pl = D.parse_log(logp)
    sigs = sorted({v["sig"] for v in pl["viol"]})
    crashed = not (pl["done"] and r["rc"] == 0)
    if crashed:
        st = open(r["stderr"], errors="replace").read()[-1500:]
        kind, where = D.classify_crash(r["rc"], pl, st)
        sigs.append(f"{prop}/{kind}@{where}")
    want = rec.get("signature")
    for v in pl["viol"]:
        print(f"  observed: {v['sig']}\n    {(v.get('detail') or '')[:1500]}")
    if want in sigs:
        print(f"VIOLATION property={prop} replay={os.path.abspath(rec.get('_path', '')) or 'replayed'}")
        print(f"  reproduced signature {want}")
        return 1
    if sigs:
        print(f"VIOLATION property={prop} replay=replayed")
        print(f"  recorded signature {want} not reproduced, but other violation(s) observed: {sigs}")
        return 1
    print(f"[{prop}] replay: case {rec['case']} seed {rec['seed']} ran without violation (recorded signature: {want})")
    return 0


# ------------------------------------------------------------------------------------------------
# C01: in-process history monitor + cross-process join of history logs

C01_RULE = ("case = pool of 3-6 maps (bpm tie setups, tie-heavy maps, generated/mutated/real maps) and a random history of 40-100 "
            "(thorough 60-200) operations {decode bytes/str/path, bpm, convert/convert_ref/convert_mut, difficulty, strains, gradual "
            "difficulty, performance, gradual performance, attribute builder} with repetitions, interleavings, fresh vs reused "
            "Difficulty values and a third of the calls on freshly spawned threads; first-seen table keyed by (map, op, settings, "
            "score): every later observation must reproduce the first; the map is compared with its clone after every by-reference "
            "call. The same seeded job list is executed by N separate processes (plain / 64 MiB of junk allocated first / different "
            "environment size) and the history logs are joined on the key. non-trivial = case ran to completion with >= 1 repeated key")


def c01(prop, tier, seed):
    import glob
    t0 = time.time()
    agg = D.Agg()
    binp = D.build("rel")
    total = 600 if tier == "quick" else 12000
    nproc = 3 if tier == "quick" else 6
    chunk = max(1, (total + 31) // 32)
    flavours = [({}, {}), ({"junk_mb": 64}, {}), ({}, {"RPV_PADDING": "x" * 3000}), ({"junk_mb": 7}, {"RPV_PADDING": "y" * 17}),
                ({"junk_mb": 129}, {}), ({}, {"MALLOC_ARENA_MAX": "1"})]
    flavour_names = ["plain", "64MiB-junk-first", "env+3000B", "7MiB-junk+env+17B", "129MiB-junk-first", "MALLOC_ARENA_MAX=1"]
    import concurrent.futures as cf
    jobs = []
    s = 0
    while s < total:
        n = min(chunk, total - s)
        jobs.append((s, n))
        s += n

    def run_one(pi, s, n):
        params, env = flavours[pi % len(flavours)]
        extra = dict(params)
        extra["--hist"] = os.path.join(D.RUN, f"{prop}-hist-p{pi}-{s}.tsv")
        D.run_range(agg if pi == 0 else side[pi], binp, prop, seed, s, n, tier, f"p{pi}", extra, 1800, env, None, None, "rel")

    side = {pi: D.Agg() for pi in range(1, nproc)}
    with cf.ThreadPoolExecutor(max_workers=D.NCPU) as ex:
        futs = [ex.submit(run_one, pi, s, n) for pi in range(nproc) for (s, n) in jobs]
        for f in futs:
            f.result()
    # violations seen by the other processes count as well
    for pi, a in side.items():
        agg.viol.extend(a.viol)
        agg.herr.extend(a.herr)
        agg.inconclusive.extend(a.inconclusive)
        for k, v in a.viol_sig_counts.items():
            agg.viol_sig_counts[k] = agg.viol_sig_counts.get(k, 0) + v
    # join
    joined = 0
    mismatches = 0
    missing = 0
    for (s, n) in jobs:
        tables = []
        for pi in range(nproc):
            fn = os.path.join(D.RUN, f"{prop}-hist-p{pi}-{s}.tsv")
            t = {}
            if os.path.exists(fn):
                for line in open(fn):
                    k, _, v = line.rstrip("\n").partition("\t")
                    t.setdefault(k, set()).add(v)
            tables.append(t)
        base = tables[0]
        for k, vs in base.items():
            for pi in range(1, nproc):
                o = tables[pi].get(k)
                if o is None:
                    missing += 1
                    continue
                joined += 1
                if o != vs:
                    mismatches += 1
                    case = int(k.split("/")[0])
                    opn = k.split("/")[2].split(":")[0]
                    agg.viol.append({"sig": f"C01/cross-process/{opn}", "case": case, "seed": seed, "variant": "rel",
                                     "detail": f"key {k}: process 0 observed digests {sorted(vs)}, process {pi} "
                                               f"({flavour_names[pi % len(flavours)]}) observed {sorted(o)}",
                                     "input": None})
                    agg.viol_sig_counts[f"C01/cross-process/{opn}"] = agg.viol_sig_counts.get(f"C01/cross-process/{opn}", 0) + 1
    if joined == 0:
        agg.inconclusive.append("cross-process join compared nothing")
    # keys missing in another process only happen when a case stopped early at a violation
    extra_cov = {"processes": nproc, "process_flavours": flavour_names[:nproc], "cross_process_keys_joined": joined,
                 "cross_process_mismatches": mismatches, "cross_process_keys_missing": missing}
    return D.conclude(prop, tier, seed, agg, t0, C01_RULE, COMMON_ASSUME + [
        "independence from time and addresses is only refuted across the wall-clock times and process layouts the runs happen at"],
        required={"repeated_observations": 1, "observations_on_spawned_threads": 1}, extra_cov=extra_cov)


REGISTRY = {p: standard for p in STANDARD}
REGISTRY["C01"] = c01
REPLAYERS = {}
