"""Per-property check definitions (what to build, how many cases per tier, evidence rule)."""
import json
import os
import time

import driver as D

COMMON_ASSUME = [
    "the harness' generators, canonical dump (Debug formatting: shortest round-trip floats, -0.0 and NaN visible) and reference models are correct",
    "rustc/LLVM compile the harness and the library faithfully; verdict covers only the executions produced",
]

# property -> config for the standard (in-process oracle, sharded) checks
STANDARD = {
    "C02": {
        "variants": ["rel"],
        "quick": 40000,
        "thorough": 1000000,
        "rule": "case = (generated/mutated/real map text, reachable mode, Difficulty without passed_objects); gradual sequence vs "
                "one-shot passed_objects(i) for every prefix (sampled above 150), final vs full, len vs count, passed(n+1) vs full. "
                "non-trivial = sequence has >= 2 values; distinct = distinct (map text, settings, mode) digests",
        "required": {"class:taiko-first2-not-both-hits": 1, "class:short-sequence(<=3)": 1, "mode:osu": 1, "mode:taiko": 1,
                     "mode:catch": 1, "mode:mania": 1},
    },
    "C03": {
        "variants": ["rel"],
        "quick": 200000,
        "thorough": 3000000,
        "rule": "case = (map text, reachable mode, Difficulty without passed_objects, random schedule of next/nth(k)/last with random "
                "consistent/inconsistent score states); after every call the result is compared with the one-shot mode-specific "
                "Performance on the same map with passed_objects(cursor) and that state, None iff nothing remained, len() == remaining. "
                "non-trivial = comparison at cursor >= 2; distinct = (map, settings, cursor, state) digests",
        "required": {"mode:osu": 1, "mode:taiko": 1, "mode:catch": 1, "mode:mania": 1},
    },
    "C04": {
        "variants": ["rel"],
        "quick": 60000,
        "thorough": 1500000,
        "rule": "case = (map text, reachable mode, Difficulty incl. passed_objects, score specification); 21 entry points "
                "(Performance::new(map|&map|attrs|perf_attrs), attrs.performance(), mode-specific new/try_new/from, try_mode, "
                "mode_or_ignore) each followed by .difficulty(D)+score must equal Performance::new(&converted); embedded "
                "difficulty attributes must equal Difficulty::calculate. non-trivial = map has >= 2 counted objects",
        "required": {"class:convert": 1, "class:passed_objects": 1, "mode:osu": 1, "mode:taiko": 1, "mode:catch": 1, "mode:mania": 1},
    },
    "C07": {
        "variants": ["rel"],
        "quick": 40000,
        "thorough": 1000000,
        "rule": "case = map of any native mode (15% already converted) x all 4 target modes x random settings; convert/convert_ref/"
                "convert_mut equal or same error, identity borrowed, convertibility predicate, convert flags, re-conversion rejected, "
                "calculate_for_mode/strains_for_mode/gradual difficulty/gradual performance/Performance::try_mode/mode_or_ignore/"
                "TryFrom<OsuPerformance> on the source equal the calculation on the explicitly converted map. "
                "non-trivial = converted map has >= 2 objects",
        "required": {"class:converted": 1, "class:identity": 1, "class:conversion-rejected": 1, "class:source-already-converted": 1},
    },
    "C08": {
        "variants": ["rel"],
        "quick": 40000,
        "thorough": 1000000,
        "rule": "case = (map, reachable mode, base settings, score spec); (1) the same game-allowed legacy combination as u32/"
                "GameModsLegacy/GameModsIntermode/&GameModsIntermode/lazer GameMods must give equal difficulty, strains, performance "
                "(via Difficulty::mods and via Performance::mods) and attribute-builder output; (2) lazer DT/NC/HT/DC with speed_change r "
                "vs default mod + clock_rate(r); (3) lazer DifficultyAdjust(field=v) vs Difficulty::field(v as f32,false) with "
                "NM/HR/EZ/DT/HT combos. Mod sets the game cannot produce (EZ+HR, DT+HT, two key mods) are not generated. "
                "non-trivial = map has >= 2 objects",
        "required": {"rate:NC": 1, "rate:DC": 1, "rate:DT": 1, "rate:HT": 1, "da:ar": 1, "da:cs": 1, "da:hp": 1, "da:od": 1,
                     "repr:Lazer": 1, "repr:Intermode": 1},
    },
    "C15": {
        "variants": ["rel", "dbg"],
        "quick": 40000,
        "thorough": 800000,
        "rule": "case = (map, reachable mode, settings); S = plain next() sequence; 4 random programs over {next, nth(k), len/size_hint, "
                "by_ref().step_by, skip, take, count, last, pokes after exhaustion} with k in {0,1,2,small,rem-1,rem,rem+1,usize::MAX} "
                "against the positional model, zip of two fresh instances, and a gradual-performance schedule vs the next-only run; "
                "both release and debug (overflow-checked) builds. non-trivial = |S| >= 2; distinct = (map, settings, program) digests",
        "required": {"class:short-sequence(<=3)": 1, "mode:osu": 1, "mode:taiko": 1, "mode:catch": 1, "mode:mania": 1},
    },
    "C09": {
        "variants": ["rel"],
        "quick": 80000,
        "thorough": 2000000,
        "rule": "case = (realistic map incl. empty/single-object/all-spinner/stacked/dense/sparse profiles, reachable mode, game-reachable "
                "settings: clock in [0.5,2], overrides in [0,11]) x 8 passed_objects prefixes x 3 score states consistent with the counts; "
                "visitor over every f64 of difficulty attributes, strains and performance attributes: finite; ratings/pp/components >= 0; "
                "ScoreState accuracy in [0,1]; a play over zero objects has pp == 0. non-trivial = map has >= 2 objects",
        "required": {"class:empty-map": 1, "class:single-object": 1, "class:all-spinner": 1, "class:zero-objects-play": 1},
    },
    "C12": {
        "variants": ["rel"],
        "quick": 40000,
        "thorough": 1000000,
        "exhaustive_prefix": True,
        "rule": "cases 0..K-1 enumerate the COMPLETE input space of every small shape (quick: <= 2 objects, thorough: <= 3; osu circles/"
                "sliders/spinners/ticks, taiko combo, catch fruits x droplets x tiny, mania objects x holds): every subset of provided hit "
                "results and misses with every value 0..N+2, combo none/0/max-1/max/max+1, accuracy none/0/50/100, both priorities, "
                "stable/lazer/CL, every passed_objects none/0..N+1; remaining cases: "
                "attribute shape from public struct literals (60% small: <= 6 per count, else up to thousands; mania <= 120) x 200 "
                "(400 thorough) random inputs: subsets of accuracy/combo/misses/hit results with values 0..N+2, both priorities, "
                "stable/lazer/CL, passed_objects; clauses S1 no panic, S2 misses, S3 sum and kept results when the provided ones fit, "
                "S4 combo bound and kept, S5 generate twice, S6 calculate() == explicit generated state. distinct = (shape, input) digests",
        "required": {"class:small-shape": 1, "class:large-shape": 1, "class:exhaustive-shape": 1},
    },
    "C13": {
        "variants": ["rel"],
        "quick": 400,
        "thorough": 2400,
        "exhaustive_prefix": True,
        "rule": "cases 0..K-1 enumerate ALL small shapes (quick: osu <= 5 objects with 0-3 sliders, 0-2 ticks, 0-2 spinners; taiko combo 0-8; "
                "catch fruits 0-3 x droplets 0-2 x tiny 0-4; mania objects 0-4 x holds 0-2; thorough: 8 / 12 / 5x3x6 / 6x3) x every miss count "
                "0..N+1 x accuracy grid 0..100 step 0.25 plus every exactly achievable accuracy +-1e-7 x priorities x stable/lazer/lazer+CL; "
                "remaining cases are sampled large shapes. oracle enumerates all hit-result distributions with the same misses using the "
                "crate's public ScoreState::accuracy; mania shapes of 700-1600 objects (one sampled case in 8) are judged by a closed-form optimum "
                "self-checked against enumeration; one request in three is preceded by the same request for a neighbouring shape. "
                "distinct = distinct shapes with >= 1 object",
        "required": {"class:exhaustive-shape": 1, "class:sampled-shape": 1},
    },
    "C14": {
        "variants": ["rel"],
        "quick": 80000,
        "thorough": 2000000,
        "rule": "case = (map, reachable mode, mods incl. mirror/HR reflections, key mods, HO/IN/RD) with n over 0..total+2 (sampled above 40); "
                "independent reference counts from public fields of the converted map; counted(n) == min(n,total); counts and max_combo "
                "non-decreasing; n >= total == unlimited; is_convert flag; HoldOff: holds count as notes; Invert: per column (notes + 2*holds) - 1 "
                "hold notes. non-trivial = total units >= 2",
        "required": {"class:convert": 1, "mode:osu": 1, "mode:taiko": 1, "mode:catch": 1, "mode:mania": 1},
    },
    "C16": {
        "variants": ["rel"],
        "quick": 80000,
        "thorough": 2000000,
        "rule": "case = (non-suspicious map incl. hour-long gaps and objects before t=0, reachable mode, settings incl. passed_objects and "
                "HO/IN/RD); peaks finite and >= 0, equal section counts across skills, re-aggregation (drop zeros, sort desc, sum peak*w^i) "
                "reproduces catch stars (0.94, sqrt*4.59), mania stars (0.9, *0.018), osu flashlight (plain sum, sqrt*0.0675, TD/RX/AP) "
                "within 4 ulp. non-trivial = >= 2 sections",
        "required": {"class:zero-run>=1000": 1, "class:objects-before-time-zero": 1, "mode:osu": 1, "mode:catch": 1, "mode:mania": 1},
    },
    "C17": {
        "variants": ["rel"],
        "quick": 15000,
        "thorough": 400000,
        "rule": "case = builder configuration (mode, is_convert, NM/HR/EZ/DT/HT combos or lazer DA/rate mods, clock none or 40 log-spaced in "
                "[0.01,100]); A1 build().hit_windows == hit_windows() for AR and OD over [-20,20] step 0.25 x both flags; A2 with_mods=true "
                "round trip on [0,10]; A3 windows non-increasing over the grid; A4 window(r)*r == window(1) (not mania great window); "
                "A5 HR >= NM >= EZ values, windows reversed; A6 stored AR/HP/OD/hit windows of a random map == builder output. "
                "distinct = configuration digests",
        "required": {"A6_checks": 1, "mode:osu": 1, "mode:taiko": 1, "mode:catch": 1, "mode:mania": 1},
    },
    "C18": {
        "variants": ["rel"],
        "quick": 80000,
        "thorough": 2000000,
        "rule": "case = (map, mode, random setter program of 1-8 setters with in/out-of-range/infinite values, score spec); B1 Performance "
                "setters (enum, owned, mode-specific builder, from attributes) == difficulty(Difficulty setters); permutation/last-wins; "
                "B2 inspect round trip; B3 clamps observed through inspect and through results; B4 documented no-op setters per mode. "
                "NaN arguments excluded. non-trivial = map has >= 2 objects",
        "required": {"noop_checks": 1, "class:mode-builder-lacks-setter": 1},
    },
    "C19": {
        "variants": ["rel"],
        "quick": 120000,
        "thorough": 3000000,
        "rule": "case = non-suspicious osu!standard map (all profiles, versions <8 and >=8) converted to taiko, catch, mania without key mod "
                "and with 3 (thorough: all 10) key mods in legacy/intermode/lazer form; objects sorted, durations finite >= 0, control "
                "points strictly increasing (when the source's are), taiko one sound per object, mania key count and raw column "
                "floor(x/(512/K)) <= K-1 with x >= 0, catch equals source except mode/is_convert. non-trivial = source has >= 2 objects",
        "required": {"class:version<8": 1, "class:version>=8": 1, "class:mania-key-mod": 1, "class:taiko-slider-split-into-hits": 1},
    },
    "C05": {
        "variants": ["rel", "dbg"],
        "quick": 8000,
        "thorough": 200000,
        "budget": 30,
        "mem": 4,
        "timeout": 3000,
        "rule": "case = text from G-gram (all profiles), G-mut, G-real windows or decodable noise; judged only if it decodes, passes "
                "check_suspicion, has <= 400 objects, <= 100 repeats and <= 20000px per slider and the static nested-object estimate is "
                "<= 50000 (others counted as out_of_domain); sweep per reachable mode: 3 conversion entry points, difficulty, strains, "
                "attribute builder, gradual difficulty with random next/nth strides and pokes after exhaustion, gradual performance with "
                "random states, Performance with accuracy/hit-result subsets/misses/combos up to 2N+2 from map and attributes, "
                "generate_state, try_mode, bpm; settings over the documented ranges (clock 0.01..100, overrides -20..20). Oracles: panic "
                "hook, worker exit status, 30 CPU-s per API call watchdog (confirmed on an isolated re-run), 4 GiB address space. The "
                "debug (overflow-checked) build sweeps only maps inside the realistic domain (times in [0,3h], coordinates near the "
                "playfield) with game-reachable settings. non-trivial = in-domain map with >= 2 objects",
        "required": {"domain:realistic": 1, "domain:adversarial-only": 1, "sweep:osu": 1, "sweep:taiko": 1, "sweep:catch": 1,
                     "sweep:mania": 1},
        "assume": ["non-termination is restated as bounded progress: one API call may use at most 30 CPU seconds",
                   "slider work is bounded is made precise by the static estimate in harness/rpv/src/maps.rs::slider_work"],
    },
    "C06": {
        "variants": ["rel"],
        "quick": 400000,
        "thorough": 10000000,
        "rule": "case = byte string: random noise, UTF-16 LE/BE with/without BOM, invalid UTF-8, CR/NUL mixes, 100 kB lines, byte flips; "
                "grammar profiles limits/ties/slider-zoo with numbers at and beyond every parser limit and NaN/inf/-0 tokens; mutated "
                "fixtures (shuffled/duplicated/truncated/corrupted lines, moved section headers); timing-point torture (0/-0/duplicate "
                "times, NaN beat lengths); pairing files (unique (x,y) and known sound per line, massive start-time ties, shuffled). "
                "Oracles: no panic, Ok or io::Error; objects sorted; one sound per object and still the written sound (osu/taiko/catch); "
                "control points strictly increasing; all floats finite and inside the documented clamps; from_bytes == from_path "
                "(== from_str for UTF-8). Every 8th case drives TandemSorter against the stable reference sort and osu_legacy on "
                "pre-sorted tie-heavy slices up to 10^4. non-trivial = decoded map has >= 2 objects; distinct = byte-string digests",
        "required": {"pairing_maps": 1, "paths:non-utf8": 1, "sorter:tandem": 1, "src:timing-torture": 1, "src:bytes": 1},
    },
}


def standard(prop, tier, seed):
    cfg = STANDARD[prop]
    t0 = time.time()
    agg = D.Agg()
    total = cfg[tier]
    exhaustive_n = None
    for variant in cfg["variants"]:
        binp = D.build(variant)
        if cfg.get("exhaustive_prefix"):
            import subprocess
            out = subprocess.run([binp, prop, "--tier", tier, "--count-cases"], capture_output=True, text=True).stdout
            try:
                exhaustive_n = int(out.split()[1])
            except (IndexError, ValueError):
                raise D.Inconclusive(f"cannot determine the size of the enumerated space: {out!r}")
            total = max(total, exhaustive_n + 50)
        if exhaustive_n:
            # the enumerated cases are heavy: one worker process per case
            D.run_sharded(agg, binp, prop, seed, exhaustive_n, tier, extra=cfg.get("params"), timeout=cfg.get("timeout", 1800),
                          budget=cfg.get("budget"), mem=cfg.get("mem"), variant=variant, chunk=1, tag="x")
            D.run_sharded(agg, binp, prop, seed, total - exhaustive_n, tier, extra=cfg.get("params"), timeout=cfg.get("timeout", 1800),
                          budget=cfg.get("budget"), mem=cfg.get("mem"), variant=variant, start=exhaustive_n)
            continue
        D.run_sharded(agg, binp, prop, seed, total, tier, extra=cfg.get("params"), timeout=cfg.get("timeout", 1800),
                      budget=cfg.get("budget"), mem=cfg.get("mem"), variant=variant)
    return D.conclude(prop, tier, seed, agg, t0, cfg["rule"], COMMON_ASSUME + cfg.get("assume", []),
                      required=cfg.get("required"), replay_extra=cfg.get("params"),
                      extra_cov={"variants": cfg["variants"], **({"exhaustive_space_size": exhaustive_n,
                                 "exhaustive_note": "cases 0..exhaustive_space_size-1 enumerate the small-shape space completely; "
                                 "the rest of the cases are sampled"} if exhaustive_n else {})},
                      exhaustive=True if exhaustive_n else cfg.get("exhaustive"))


def replay(prop, path):
    rec = json.load(open(path))
    if rec.get("property") != prop:
        print(f"replay file is for {rec.get('property')}, not {prop}")
        return 3
    fn = REPLAYERS.get(prop, replay_standard)
    return fn(prop, rec)


def replay_standard(prop, rec):
    variant = rec.get("variant", "rel")
    if variant not in D.VARIANTS:
        variant = "rel"
    binp = D.build(variant)
    os.makedirs(D.RUN, exist_ok=True)
    logp = os.path.join(D.RUN, f"{prop}-replay.log")
    r = D.run_worker(binp, prop, rec["seed"], rec["case"], 1, rec.get("tier", "quick"), logp, rec.get("params") or {})
    pl = D.parse_log(logp)
    sigs = sorted({v["sig"] for v in pl["viol"]})
    crashed = not (pl["done"] and r["rc"] == 0)
    if crashed:
        st = open(r["stderr"], errors="replace").read()[-1500:]
        kind, where = D.classify_crash(r["rc"], pl, st)
        sigs.append(f"{prop}/{kind}@{where}")
    want = rec.get("signature")
    for v in pl["viol"]:
        print(f"  observed: {v['sig']}\n    {(v.get('detail') or '')[:1500]}")
    if want in sigs:
        print(f"VIOLATION property={prop} replay={os.path.abspath(rec.get('_path', '')) or 'replayed'}")
        print(f"  reproduced signature {want}")
        return 1
    if sigs:
        print(f"VIOLATION property={prop} replay=replayed")
        print(f"  recorded signature {want} not reproduced, but other violation(s) observed: {sigs}")
        return 1
    print(f"[{prop}] replay: case {rec['case']} seed {rec['seed']} ran without violation (recorded signature: {want})")
    return 0


# ------------------------------------------------------------------------------------------------
# C01: in-process history monitor + cross-process join of history logs

C01_RULE = ("case = pool of 3-6 maps (bpm tie setups, tie-heavy maps, generated/mutated/real maps) and a random history of 40-100 "
            "(thorough 60-200) operations {decode bytes/str/path, bpm, convert/convert_ref/convert_mut, difficulty, strains, gradual "
            "difficulty, performance, gradual performance, attribute builder} with repetitions, interleavings, fresh vs reused "
            "Difficulty values and a third of the calls on freshly spawned threads; first-seen table keyed by (map, op, settings, "
            "score): every later observation must reproduce the first; the map is compared with its clone after every by-reference "
            "call. The same seeded job list is executed by N separate processes (plain / 64 MiB of junk allocated first / different "
            "environment size / cases in reverse order) and the history logs are joined on the key. Every eighth pool has a 1000-1700 object "
            "map, one in 192 (thorough 768) a 1400-1700 note mania map whose accuracy-only plays need seconds of hit-result search and are "
            "observed alternately on an idle core and under six spinning threads. non-trivial = case ran to completion with >= 1 repeated key")


def c01(prop, tier, seed):
    import glob
    t0 = time.time()
    agg = D.Agg()
    binp = D.build("rel")
    total = 1500 if tier == "quick" else 30000
    nproc = 3 if tier == "quick" else 6
    chunk = max(1, (total + 31) // 32)
    flavours = [({}, {}), ({"junk_mb": 64, "reverse": 1}, {}), ({}, {"RPV_PADDING": "x" * 3000}), ({"junk_mb": 7}, {"RPV_PADDING": "y" * 17}),
                ({"junk_mb": 129, "reverse": 1}, {}), ({}, {"MALLOC_ARENA_MAX": "1"})]
    flavour_names = ["plain", "64MiB-junk-first+cases-in-reverse-order", "env+3000B", "7MiB-junk+env+17B",
                     "129MiB-junk-first+cases-in-reverse-order", "MALLOC_ARENA_MAX=1"]
    import concurrent.futures as cf
    jobs = []
    s = 0
    while s < total:
        n = min(chunk, total - s)
        jobs.append((s, n))
        s += n

    def run_one(pi, s, n):
        params, env = flavours[pi % len(flavours)]
        extra = dict(params)
        extra["--hist"] = os.path.join(D.RUN, f"{prop}-hist-p{pi}-{s}.tsv")
        D.run_range(agg if pi == 0 else side[pi], binp, prop, seed, s, n, tier, f"p{pi}", extra, 1800, env, None, None, "rel")

    side = {pi: D.Agg() for pi in range(1, nproc)}
    with cf.ThreadPoolExecutor(max_workers=D.NCPU) as ex:
        futs = [ex.submit(run_one, pi, s, n) for pi in range(nproc) for (s, n) in jobs]
        for f in futs:
            f.result()
    # violations seen by the other processes count as well
    for pi, a in side.items():
        agg.viol.extend(a.viol)
        agg.herr.extend(a.herr)
        agg.inconclusive.extend(a.inconclusive)
        for k, v in a.viol_sig_counts.items():
            agg.viol_sig_counts[k] = agg.viol_sig_counts.get(k, 0) + v
    # join
    joined = 0
    mismatches = 0
    missing = 0
    for (s, n) in jobs:
        tables = []
        for pi in range(nproc):
            fn = os.path.join(D.RUN, f"{prop}-hist-p{pi}-{s}.tsv")
            t = {}
            if os.path.exists(fn):
                for line in open(fn):
                    k, _, v = line.rstrip("\n").partition("\t")
                    t.setdefault(k, set()).add(v)
            tables.append(t)
        base = tables[0]
        for k, vs in base.items():
            for pi in range(1, nproc):
                o = tables[pi].get(k)
                if o is None:
                    missing += 1
                    continue
                joined += 1
                if o != vs:
                    mismatches += 1
                    case = int(k.split("/")[0])
                    opn = k.split("/")[2].split(":")[0]
                    agg.viol.append({"sig": f"C01/cross-process/{opn}", "case": case, "seed": seed, "variant": "rel",
                                     "detail": f"key {k}: process 0 observed digests {sorted(vs)}, process {pi} "
                                               f"({flavour_names[pi % len(flavours)]}) observed {sorted(o)}",
                                     "input": None})
                    agg.viol_sig_counts[f"C01/cross-process/{opn}"] = agg.viol_sig_counts.get(f"C01/cross-process/{opn}", 0) + 1
    if joined == 0:
        agg.inconclusive.append("cross-process join compared nothing")
    # keys missing in another process only happen when a case stopped early at a violation
    extra_cov = {"processes": nproc, "process_flavours": flavour_names[:nproc], "cross_process_keys_joined": joined,
                 "cross_process_mismatches": mismatches, "cross_process_keys_missing": missing}
    return D.conclude(prop, tier, seed, agg, t0, C01_RULE, COMMON_ASSUME + [
        "independence from time and addresses is only refuted across the wall-clock times and process layouts the runs happen at"],
        required={"repeated_observations": 1, "observations_on_spawned_threads": 1}, extra_cov=extra_cov)


# ------------------------------------------------------------------------------------------------
# C10: the same seeded job list in four separately built binaries, history logs joined

C10_RULE = ("case = 4 direct StrainsVec operation programs (pushes of positive/subnormal/huge values and zero runs up to 3000, then "
            "len/sum/iter/into_vec and retain+sort+transmute, sorted_non_zero_iter_mut rescaling, retain) plus one map (40% with "
            "hour-long gaps / objects before t=0) x every reachable mode x {difficulty, strains, performance, gradual difficulty "
            "next/nth/last walk, gradual performance schedule, map-level API (check_suspicion, bpm, break time, attribute builder), "
            "converted map}; 20% of the maps are mid-size maps built from rhythm phases; every result digest is logged by the four binaries rel (default "
            "features), raw (raw_strains), sync, rawsync and the logs are joined key by key. non-trivial = map with >= 2 objects")


def join_hists(agg, prop, jobs, labels, seed, sig_prefix):
    """Join history logs {label: file per job}; label[0] is the reference. Returns (joined, mismatches, missing)."""
    joined = mismatches = missing = 0
    for (s, n) in jobs:
        tables = []
        for lb in labels:
            fn = os.path.join(D.RUN, f"{prop}-hist-{lb}-{s}.tsv")
            t = {}
            if os.path.exists(fn):
                for line in open(fn):
                    k, _, v = line.rstrip("\n").partition("\t")
                    t.setdefault(k, set()).add(v)
            tables.append(t)
        base = tables[0]
        for k, vs in base.items():
            for li in range(1, len(labels)):
                o = tables[li].get(k)
                if o is None:
                    missing += 1
                    continue
                joined += 1
                if o != vs:
                    mismatches += 1
                    parts = k.split("/")
                    case = int(parts[0])
                    what = "/".join(parts[1:])
                    sig = f"{sig_prefix}/{labels[li]}-vs-{labels[0]}/{what.split('/')[-1] if not what.startswith('strainsvec') else 'strainsvec'}"
                    agg.viol.append({"sig": sig, "case": case, "seed": seed, "variant": labels[li],
                                     "detail": f"key {k}: build {labels[0]} observed digests {sorted(vs)}, build {labels[li]} observed {sorted(o)}",
                                     "input": None})
                    agg.viol_sig_counts[sig] = agg.viol_sig_counts.get(sig, 0) + 1
        for li in range(1, len(labels)):
            for k in tables[li]:
                if k not in base:
                    missing += 1
    return joined, mismatches, missing


def c10(prop, tier, seed):
    import concurrent.futures as cf
    t0 = time.time()
    agg = D.Agg()
    labels = ["rel", "raw", "sync", "rawsync"]
    bins = {lb: D.build(lb) for lb in labels}
    total = 3000 if tier == "quick" else 60000
    chunk = max(1, (total + 15) // 16)
    jobs = []
    s = 0
    while s < total:
        n = min(chunk, total - s)
        jobs.append((s, n))
        s += n
    side = {lb: (agg if lb == "rel" else D.Agg()) for lb in labels}

    def run_one(lb, s, n):
        extra = {"--hist": os.path.join(D.RUN, f"{prop}-hist-{lb}-{s}.tsv")}
        D.run_range(side[lb], bins[lb], prop, seed, s, n, tier, lb, extra, 1800, None, 30, 6, lb)

    with cf.ThreadPoolExecutor(max_workers=D.NCPU) as ex:
        futs = [ex.submit(run_one, lb, s, n) for lb in labels for (s, n) in jobs]
        for f in futs:
            f.result()
    for lb in labels[1:]:
        a = side[lb]
        agg.viol.extend(a.viol)
        agg.herr.extend(a.herr)
        agg.inconclusive.extend(a.inconclusive)
        agg.crashes += a.crashes
        for k, v in a.viol_sig_counts.items():
            agg.viol_sig_counts[k] = agg.viol_sig_counts.get(k, 0) + v
    joined, mismatches, missing = join_hists(agg, prop, jobs, labels, seed, "C10/cross-build")
    if joined == 0:
        agg.inconclusive.append("cross-build join compared nothing")
    if missing:
        agg.inconclusive.append(f"{missing} keys missing in one of the builds (a worker stopped early)")
    extra_cov = {"builds": labels, "cross_build_keys_joined": joined, "cross_build_mismatches": mismatches,
                 "cross_build_keys_missing": missing}
    return D.conclude(prop, tier, seed, agg, t0, C10_RULE, COMMON_ASSUME, required={
        "class:>=1e3-sections": 1, "class:objects-before-time-zero": 1, "strainsvec_programs": 1}, extra_cov=extra_cov)


def replay_c10(prop, rec):
    """Re-run the recorded case in all four builds and join."""
    agg = D.Agg()
    labels = ["rel", "raw", "sync", "rawsync"]
    case = rec["case"]
    for lb in labels:
        binp = D.build(lb)
        extra = {"--hist": os.path.join(D.RUN, f"{prop}-hist-{lb}-{case}.tsv")}
        D.run_range(agg, binp, prop, rec["seed"], case, 1, rec.get("tier", "quick"), "replay" + lb, extra, 1800, None, 30, 6, lb)
    joined, mismatches, missing = join_hists(agg, prop, [(case, 1)], labels, rec["seed"], "C10/cross-build")
    sigs = sorted({v["sig"] for v in agg.viol})
    for v in agg.viol[:5]:
        print(f"  observed: {v['sig']}\n    {(v.get('detail') or '')[:800]}")
    if sigs:
        print(f"VIOLATION property={prop} replay=replayed")
        print(f"  recorded signature {rec.get('signature')}; observed {sigs}")
        return 1
    print(f"[{prop}] replay: case {case} joined {joined} keys across 4 builds without mismatch")
    return 0


# ------------------------------------------------------------------------------------------------
# C11: Miri (both aliasing models) + ASan + valgrind memcheck + native model comparison

C11_RULE = ("case = (a) 2-8 StrainsVec operation programs respecting the type's unsafe contracts (pushes of positive, +0, -0, negative, "
            "subnormal, +-NaN, +-inf; clone; retain/sort/transmute; sorted_non_zero_iter_mut with positive rescaling; into_vec/iter/sum) "
            "compared step by step with a Vec<f64> model; (b) gradual difficulty calculators of a generated map: dropped untouched, "
            "boxed/partially consumed/unboxed, pushed into a reallocating Vec and swapped, mem::swap + interleaved, Option::take, "
            "(sync: handed to another thread); every observed value compared with the plain sequence; (c) decoder on 20 slider path "
            "lines incl. malformed ones that return early; (d) clock_rate extremes. Executed natively (release + debug with has_zero "
            "and debug assertions live), under Miri with Stacked Borrows and with Tree Borrows (small workload), under "
            "AddressSanitizer (plus the C02/C05/C06 workloads), and under valgrind memcheck (sample). Verdict rule: violation = model "
            "mismatch, UB reported under Tree Borrows, non-aliasing UB under either model, any ASan/memcheck error; reports that appear "
            "only under Stacked Borrows and concern borrow tags are advisory. non-trivial = case with a map of >= 2 objects")

MIRI_BASE_FLAGS = "-Zmiri-disable-isolation -Zmiri-deterministic-floats -Zmiri-ignore-leaks"


def miri_classify(stderr_text):
    """Return (kind, is_aliasing, frame, message) for the first UB report or None."""
    import re
    m = re.search(r"error: Undefined Behavior: (.*)", stderr_text)
    if not m:
        m2 = re.search(r"error: (unsupported operation|the evaluated program [^\n]*|memory leaked)[^\n]*", stderr_text)
        if m2:
            return ("miri-error", False, "unknown", m2.group(0)[:300])
        return None
    msg = m.group(1)
    aliasing = any(w in msg for w in ("retag", "borrow stack", "is forbidden", "Stacked Borrows", "Tree Borrows", "protected", "tag"))
    if "data race" in msg.lower():
        kind, aliasing = "data-race", False
    elif "dangling" in msg or "freed" in msg or "dereferenc" in msg:
        kind = "dangling"
        aliasing = False
    elif "out-of-bounds" in msg or "out of bounds" in msg:
        kind, aliasing = "out-of-bounds", False
    elif "uninitialized" in msg:
        kind, aliasing = "uninit", False
    elif "invalid value" in msg or "constructing invalid" in msg:
        kind, aliasing = "invalid-value", False
    elif aliasing:
        kind = "aliasing"
    else:
        kind = "ub"
    frame = "unknown"
    bt = stderr_text.split("stack backtrace:", 1)
    for line in (bt[1] if len(bt) > 1 else stderr_text).splitlines():
        mm = re.match(r"\s*\d+: (.*)", line)
        if mm and "rosu_pp::" in mm.group(1):
            tok = re.search(r"rosu_pp::[A-Za-z0-9_:]+", mm.group(1))
            if tok:
                frame = tok.group(0).rstrip(":")
                break
    return (kind, aliasing, frame, msg[:400])


def run_miri_shard(prop, seed, start, count, model, tag, extra_params, timeout=1500, manyseeds=None):
    env = dict(D.ENV_BASE)
    flags = MIRI_BASE_FLAGS + (" -Zmiri-tree-borrows" if model == "tree" else "")
    if manyseeds:
        flags += f" -Zmiri-many-seeds=0..{manyseeds}"
    env["MIRIFLAGS"] = flags
    env["CARGO_TARGET_DIR"] = os.path.join(D.TARGET, "miri")
    logp = os.path.join(D.RUN, f"{prop}-miri-{model}-{tag}-{start}.log")
    cmd = ["cargo", "+nightly", "miri", "run", "-q", "-p", "rpv", "--offline", "--", prop, "--seed", str(seed), "--start", str(start),
           "--count", str(count), "--log", logp, "--budget", "0", "--mem", "0"]
    for k, v in extra_params.items():
        cmd += ["--param", f"{k}={v}"]
    import subprocess
    t0 = time.time()
    try:
        r = subprocess.run(cmd, cwd=D.HARNESS, env=env, capture_output=True, text=True, timeout=timeout)
        rc, err = r.returncode, r.stderr
        timed_out = False
    except subprocess.TimeoutExpired as e:
        rc, err, timed_out = -9, (e.stderr or b"").decode(errors="replace") if isinstance(e.stderr, bytes) else (e.stderr or ""), True
    open(logp + ".stderr", "w").write(err)
    return {"rc": rc, "stderr": err, "log": logp, "timed_out": timed_out, "wall": time.time() - t0}


def miri_prebuild():
    """Compile the harness for Miri once so that the parallel shards only run."""
    import subprocess
    env = dict(D.ENV_BASE)
    env["MIRIFLAGS"] = MIRI_BASE_FLAGS
    env["CARGO_TARGET_DIR"] = os.path.join(D.TARGET, "miri")
    t0 = time.time()
    r = subprocess.run(["cargo", "+nightly", "miri", "run", "-q", "-p", "rpv", "--offline", "--", "C13", "--count-cases"],
                       cwd=D.HARNESS, env=env, capture_output=True, text=True)
    if r.returncode != 0 or "COUNT" not in r.stdout:
        raise D.Inconclusive(f"miri build/run of the harness failed: {r.stderr[-1500:]}")
    D.log(f"[build] variant=miri {time.time() - t0:.1f}s")


def miri_campaign(agg, prop, seed, n_cases, per_shard, models, extra_params, stats, sig_prefix, manyseeds=None, own_oracles=True,
                  stat_tag=""):
    import concurrent.futures as cf
    jobs = [(m, s) for m in models for s in range(0, n_cases, per_shard)]
    results = {}

    def one(m, s):
        return run_miri_shard(prop, seed, s, min(per_shard, n_cases - s), m, "c", extra_params, manyseeds=manyseeds)

    with cf.ThreadPoolExecutor(max_workers=D.NCPU) as ex:
        futs = {ex.submit(one, m, s): (m, s) for (m, s) in jobs}
        for f in cf.as_completed(futs):
            results[futs[f]] = f.result()
    reports = {}
    for (m, s), r in sorted(results.items()):
        pl = D.parse_log(r["log"])
        if own_oracles:
            if m == models[0]:
                agg.add_stats(pl["stats"])
            agg.viol.extend(dict(v, variant=f"miri-{m}") for v in pl["viol"])
            for v in pl["viol"]:
                agg.viol_sig_counts[v["sig"]] = agg.viol_sig_counts.get(v["sig"], 0) + 1
        stats[f"miri_{m}{stat_tag}_shards"] = stats.get(f"miri_{m}{stat_tag}_shards", 0) + 1
        if pl["stats"]:
            stats[f"miri_{m}{stat_tag}_cases_completed"] = stats.get(f"miri_{m}{stat_tag}_cases_completed", 0) + min(per_shard, n_cases - s)
        if r["timed_out"]:
            agg.inconclusive.append(f"miri shard {m}@{s} hit the wall-clock limit")
            continue
        cl = miri_classify(r["stderr"])
        if cl:
            reports[(m, s)] = cl
        elif r["rc"] != 0 or not pl["done"]:
            agg.inconclusive.append(f"miri shard {m}@{s} ended abnormally rc={r['rc']}: {r['stderr'][-400:]}")
    # verdict rule
    advisory = []
    for (m, s), (kind, aliasing, frame, msg) in sorted(reports.items()):
        stats["miri_reports"] = stats.get("miri_reports", 0) + 1
        if kind == "miri-error":
            agg.inconclusive.append(f"miri shard {m}@{s}: {msg}")
            continue
        if aliasing and m == "stacked":
            # counts as a violation only if Tree Borrows reports UB for the same shard as well
            if (("tree", s) in reports):
                continue  # the tree report carries the violation
            advisory.append(f"stacked-borrows-only: {frame}: {msg[:160]}")
            continue
        sig = f"{sig_prefix}/miri:{kind}@{frame}"
        pl = D.parse_log(results[(m, s)]["log"])
        case = pl["open"] if pl["open"] is not None else s
        agg.viol.append({"sig": sig, "case": case, "seed": seed, "variant": f"miri-{m}",
                         "detail": f"Miri ({'Tree' if m == 'tree' else 'Stacked'} Borrows) reported undefined behaviour in case {case}: {msg}\n"
                                   f"innermost library frame: {frame}\n" + results[(m, s)]["stderr"][:1800],
                         "input": None})
        agg.viol_sig_counts[sig] = agg.viol_sig_counts.get(sig, 0) + 1
    stats["miri_advisory_stacked_only"] = advisory[:10]


def valgrind_sample(agg, prop, seed, binp, start, count, params, stats, sig_prefix):
    import subprocess, re
    logp = os.path.join(D.RUN, f"{prop}-valgrind-{start}.log")
    vlog = os.path.join(D.RUN, f"{prop}-valgrind-{start}.vg")
    cmd = ["valgrind", "--tool=memcheck", "--error-exitcode=77", "--leak-check=no", f"--log-file={vlog}", "--num-callers=25",
           binp, prop, "--seed", str(seed), "--start", str(start), "--count", str(count), "--log", logp, "--budget", "0", "--mem", "0"]
    for k, v in params.items():
        cmd += ["--param", f"{k}={v}"]
    try:
        r = subprocess.run(cmd, cwd=D.VERIF, env=D.ENV_BASE, capture_output=True, text=True, timeout=1500)
    except subprocess.TimeoutExpired:
        agg.inconclusive.append("valgrind sample hit the wall-clock limit")
        return
    pl = D.parse_log(logp)
    txt = open(vlog, errors="replace").read() if os.path.exists(vlog) else ""
    m = re.search(r"ERROR SUMMARY: (\d+) errors", txt)
    n_err = int(m.group(1)) if m else -1
    stats["valgrind_cases"] = stats.get("valgrind_cases", 0) + (count if pl["done"] else 0)
    stats["valgrind_errors"] = stats.get("valgrind_errors", 0) + max(n_err, 0)
    if n_err > 0:
        fr = re.search(r"(?:at|by) 0x[0-9A-F]+: (rosu_pp::[^ (]+)", txt)
        frame = fr.group(1) if fr else "unknown"
        kind = re.search(r"== (Invalid (?:read|write)[^\n]*|Conditional jump[^\n]*|Use of uninit[^\n]*|Invalid free[^\n]*)", txt)
        sig = f"{sig_prefix}/memcheck@{frame}"
        agg.viol.append({"sig": sig, "case": start, "seed": seed, "variant": "valgrind",
                         "detail": f"valgrind memcheck: {n_err} error(s); first: {kind.group(1) if kind else '?'}\n{txt[:1500]}",
                         "input": None})
        agg.viol_sig_counts[sig] = agg.viol_sig_counts.get(sig, 0) + 1
    elif n_err < 0 or not pl["done"]:
        agg.inconclusive.append(f"valgrind sample ended abnormally rc={r.returncode}")


ASAN_ENV = {"ASAN_OPTIONS": "detect_leaks=0:halt_on_error=1:abort_on_error=1:allocator_may_return_null=1"}


def c11(prop, tier, seed):
    t0 = time.time()
    agg = D.Agg()
    stats = {}
    quick = tier == "quick"
    # native: release and debug (has_zero flag + debug assertions live)
    for variant, n in (("rel", 4000 if quick else 100000), ("dbg", 1500 if quick else 30000)):
        binp = D.build(variant)
        D.run_sharded(agg, binp, prop, seed, n, tier, variant=variant, tag="n")
    # ASan: C11 workload plus the C02 / C05 / C06 workloads with maps far larger than Miri can take
    asan = D.build("asan")
    side = D.Agg()
    for p2, n in ((prop, 1500 if quick else 30000), ("C02", 600 if quick else 12000), ("C05", 1000 if quick else 20000),
                  ("C06", 4000 if quick else 100000)):
        a = agg if p2 == prop else side
        D.run_sharded(a, asan, p2, seed, n, tier, variant="asan", tag="a", env=ASAN_ENV, mem=0, timeout=3000)
        stats[f"asan_cases_{p2}"] = n
    # only memory errors of the foreign workloads count here (their own oracles are judged by their own checks)
    for v in side.viol:
        if "asan:" in v["sig"] or "signal" in v["sig"] or "stack-overflow" in v["sig"]:
            v = dict(v)
            v["sig"] = v["sig"].replace(v["sig"].split("/")[0], "C11", 1)
            agg.viol.append(v)
            agg.viol_sig_counts[v["sig"]] = agg.viol_sig_counts.get(v["sig"], 0) + 1
    agg.inconclusive.extend(side.inconclusive)
    stats["asan_foreign_workload_api_calls"] = side.counters.get("api_calls", 0)
    stats["asan_worker_crashes"] = agg.crashes + side.crashes
    # Miri, both aliasing models
    miri_prebuild()
    n_miri = 48 if quick else 800
    miri_campaign(agg, prop, seed, n_miri, 3 if quick else 5, ["stacked", "tree"], {"small": 1}, stats, "C11")
    # the decoder (raw-pointer scratch buffer) on hostile small inputs: the C06 workload, only Miri's verdict counts here
    miri_campaign(agg, "C06", seed, 32 if quick else 400, 4, ["stacked", "tree"], {"small": 1}, stats, "C11", own_oracles=False,
                  stat_tag="_decoder")
    # valgrind memcheck sample on the plain release binary
    relb = D.build("rel")
    import concurrent.futures as cf
    n_vg = 4 if quick else 16
    with cf.ThreadPoolExecutor(max_workers=D.NCPU) as ex:
        futs = [ex.submit(valgrind_sample, agg, prop, seed, relb, 5000 + 10 * k, 10, {}, stats, "C11") for k in range(n_vg)]
        for f in futs:
            f.result()
    required = {"strainsvec_programs": 1, "lifetimes:osu": 1, "lifetimes:taiko": 1, "lifetimes:catch": 1, "lifetimes:mania": 1,
                "decoder_path_files": 1}
    for k in ("miri_stacked_cases_completed", "miri_tree_cases_completed", "valgrind_cases"):
        if stats.get(k, 0) < 1:
            agg.inconclusive.append(f"{k} = {stats.get(k, 0)}")
    return D.conclude(prop, tier, seed, agg, t0, C11_RULE, COMMON_ASSUME + [
        "Miri cannot see layout assumptions that happen to hold (transmute between Vec<StrainsEntry> and Vec<f64>); ASan misses "
        "intra-object and non-adjacent overflows; -Zmiri-deterministic-floats is used so that value comparisons are meaningful"],
        required=required, extra_cov={"sanitizers": stats, "variants": ["rel", "dbg", "asan", "miri-stacked", "miri-tree", "valgrind"]})


# ------------------------------------------------------------------------------------------------
# C20: thread pool vs sequential, ThreadSanitizer, hand-over chains, Miri data-race detector

C20_RULE = ("case = pool of 3-6 maps and 30-80 jobs {difficulty, strains, performance, conversion, gradual walk, bpm+attributes} "
            "concentrated on <= 3 maps; run sequentially, then on 2/4/8/16 threads (3 schedules per case, thorough 6) with random "
            "assignment, rendezvous start and jitter, maps shared by reference and (every third schedule) owned per thread; per-job "
            "dumps must equal the sequential ones, shared maps unchanged; overlap (jobs on the same map on different threads with "
            "intersecting [start,end]) is measured. With feature sync: a gradual calculator travels through a chain of threads over "
            "channels (all 2-thread split points for sequences <= 12, random chains of 2-8 threads otherwise) and must yield its "
            "single-thread sequence. The same workload runs in the default build, the sync build, under ThreadSanitizer (sync, "
            "-Zbuild-std) and, tiny, under Miri's data-race detector with several scheduler seeds. non-trivial = every case")

TSAN_ENV = {"TSAN_OPTIONS": "halt_on_error=1 exitcode=66 second_deadlock_stack=1"}


def c20(prop, tier, seed):
    t0 = time.time()
    agg = D.Agg()
    stats = {}
    quick = tier == "quick"
    for variant, n in (("rel", 600 if quick else 12000), ("sync", 600 if quick else 12000)):
        binp = D.build(variant)
        D.run_sharded(agg, binp, prop, seed, n, tier, variant=variant, tag="n", workers=4, extra={"max_threads": 16})
    # cold-start campaign: one case per process, the parallel schedule comes before any other calculation of that process
    # (racy lazy initialisation of process-wide state can only show in the first calculations of a process)
    # One process at a time (its 16 threads get the 16 cores; a process takes ~15 ms). The window of such a race is a few
    # microseconds: on a seeded racy lazy-init about 1 % (dbg) / 0.3 % (rel) of the processes hit it, hence the large number.
    n_cold = 1500 if quick else 30000
    cold0 = 5_000_000
    cold_joined = cold_mismatch = 0
    for variant in ("rel", "dbg"):
        binp = D.build(variant)
        # reference: the same cases calculated strictly sequentially by other processes (16 shards in parallel)
        ref = {}
        side = D.Agg()
        shard = (n_cold + 15) // 16
        import concurrent.futures as cf0

        def run_ref(s0, n):
            hp = os.path.join(D.RUN, f"{prop}-hist-ref{variant}-{s0}.tsv")
            D.run_range(side, binp, prop, seed, s0, n, tier, f"r{variant}", {"--hist": hp, "cold": 2, "max_threads": 16}, 1800, None, None, None, variant)
            return hp

        with cf0.ThreadPoolExecutor(max_workers=D.NCPU) as ex:
            futs = [ex.submit(run_ref, cold0 + k * shard, min(shard, n_cold - k * shard)) for k in range(16) if k * shard < n_cold]
            ref_files = [f.result() for f in futs]
        for v in side.viol:
            agg.viol.append(v)
            agg.viol_sig_counts[v["sig"]] = agg.viol_sig_counts.get(v["sig"], 0) + 1
        agg.inconclusive.extend(side.inconclusive)
        for fn in ref_files:
            if os.path.exists(fn):
                for line in open(fn):
                    k, _, v = line.rstrip("\n").partition("\t")
                    ref.setdefault(k, set()).add(v)
        # cold processes, one at a time
        for i in range(n_cold):
            hp = os.path.join(D.RUN, f"{prop}-hist-cold{variant}-{cold0 + i}.tsv")
            D.run_range(agg, binp, prop, seed, cold0 + i, 1, tier, f"c{variant}", {"--hist": hp, "cold": 1, "max_threads": 16},
                        1800, None, None, None, variant)
            if not os.path.exists(hp):
                continue
            seen = {}
            for line in open(hp):
                k, _, v = line.rstrip("\n").partition("\t")
                seen.setdefault(k, set()).add(v)
            os.remove(hp)
            for k, vs in seen.items():
                want = ref.get(k)
                if want is None:
                    continue
                cold_joined += 1
                if vs != want:
                    cold_mismatch += 1
                    case, _, kind = k.split("/")
                    sig = f"C20/cold-start-vs-reference-process/{kind}"
                    agg.viol.append({"sig": sig, "case": int(case), "seed": seed, "variant": variant,
                                     "detail": f"job {k}: a process whose first calculations ran on 16 threads at once produced digests {sorted(vs)}; "
                                               f"a process that calculated the same jobs strictly one after another produced {sorted(want)} "
                                               f"(replay: rpv C20 --start {case} --count 1 --param cold=1 vs --param cold=2)",
                                     "input": None})
                    agg.viol_sig_counts[sig] = agg.viol_sig_counts.get(sig, 0) + 1
    stats["cold_start_processes"] = 2 * n_cold
    stats["cold_start_results_compared_with_reference_process"] = cold_joined
    stats["cold_start_mismatches_with_reference_process"] = cold_mismatch
    if cold_joined == 0:
        agg.inconclusive.append("cold-start campaign compared nothing with the reference processes")
    tsan = D.build("tsan")
    n_tsan = 160 if quick else 3000
    before = agg.crashes
    D.run_sharded(agg, tsan, prop, seed, n_tsan, tier, variant="tsan", tag="t", env=TSAN_ENV, mem=0, workers=4, timeout=3000)
    stats["tsan_cases"] = n_tsan
    stats["tsan_worker_crashes"] = agg.crashes - before
    # Miri (sync feature) with several scheduler seeds: data-race detector + aliasing models across threads
    import subprocess
    env = dict(D.ENV_BASE)
    env["CARGO_TARGET_DIR"] = os.path.join(D.TARGET, "miri-sync")
    env["MIRIFLAGS"] = MIRI_BASE_FLAGS
    r = subprocess.run(["cargo", "+nightly", "miri", "run", "-q", "-p", "rpv", "--features", "sync", "--offline", "--", "C13", "--count-cases"],
                       cwd=D.HARNESS, env=env, capture_output=True, text=True)
    if r.returncode != 0:
        raise D.Inconclusive(f"miri build (sync) failed: {r.stderr[-1500:]}")
    import concurrent.futures as cf
    n_miri = 16 if quick else 160
    seeds = 4 if quick else 8

    def one(s):
        e = dict(env)
        e["MIRIFLAGS"] = MIRI_BASE_FLAGS + f" -Zmiri-many-seeds=0..{seeds}"
        logp = os.path.join(D.RUN, f"{prop}-miri-sync-{s}.log")
        cmd = ["cargo", "+nightly", "miri", "run", "-q", "-p", "rpv", "--features", "sync", "--offline", "--", prop, "--seed", str(seed),
               "--start", str(s), "--count", "1", "--log", logp, "--budget", "0", "--mem", "0", "--param", "small=1"]
        try:
            rr = subprocess.run(cmd, cwd=D.HARNESS, env=e, capture_output=True, text=True, timeout=2400)
            return s, rr.returncode, rr.stderr, logp, False
        except subprocess.TimeoutExpired:
            return s, -9, "", logp, True

    with cf.ThreadPoolExecutor(max_workers=D.NCPU) as ex:
        res = list(ex.map(one, range(n_miri)))
    done = 0
    for s, rc, err, logp, to in res:
        open(logp + ".stderr", "w").write(err)
        if to:
            agg.inconclusive.append(f"miri shard {s} hit the wall-clock limit")
            continue
        cl = miri_classify(err)
        pl = D.parse_log(logp)
        for v in pl["viol"]:
            agg.viol.append(dict(v, variant="miri-sync"))
            agg.viol_sig_counts[v["sig"]] = agg.viol_sig_counts.get(v["sig"], 0) + 1
        if cl:
            kind, aliasing, frame, msg = cl
            if kind == "miri-error":
                agg.inconclusive.append(f"miri shard {s}: {msg}")
                continue
            sig = f"C20/miri:{kind}@{frame}"
            agg.viol.append({"sig": sig, "case": s, "seed": seed, "variant": "miri-sync",
                             "detail": f"Miri reported undefined behaviour in the threaded workload (case {s}, one of {seeds} scheduler seeds): {msg}\n{err[:1800]}",
                             "input": None})
            agg.viol_sig_counts[sig] = agg.viol_sig_counts.get(sig, 0) + 1
        elif rc != 0:
            agg.inconclusive.append(f"miri shard {s} ended abnormally rc={rc}: {err[-400:]}")
        else:
            done += 1
    stats["miri_sync_cases_completed"] = done
    stats["miri_scheduler_seeds_per_case"] = seeds
    if done == 0:
        agg.inconclusive.append("no Miri case completed")
    if agg.counters.get("overlapping_job_pairs_same_map", 0) < 100:
        agg.inconclusive.append("too little measured overlap between threads working on the same map")
    return D.conclude(prop, tier, seed, agg, t0, C20_RULE, COMMON_ASSUME + [
        "all OS schedules is sampled, not enumerated; the library has no internal synchronisation points where delays could be injected, "
        "jitter is applied between jobs only"],
        required={"handover_chains": 1, "schedules:16-threads": 1, "schedules:shared-maps": 1, "schedules:owned-maps": 1,
                  "cold_start_schedules": 1, "pingpong_visits": 1},
        extra_cov={"sanitizers": stats, "variants": ["rel", "sync", "tsan", "miri-sync"]})


REGISTRY = {p: standard for p in STANDARD}
REGISTRY["C01"] = c01
REGISTRY["C20"] = c20
REGISTRY["C11"] = c11
REGISTRY["C10"] = c10
REPLAYERS = {"C10": replay_c10}
