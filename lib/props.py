"""Per-property check definitions (what to build, how many cases per tier, evidence rule)."""
import json
import os
import time

import driver as D

COMMON_ASSUME = [
    "the harness' generators, canonical dump (Debug formatting: shortest round-trip floats, -0.0 and NaN visible) and reference models are correct",
    "rustc/LLVM compile the harness and the library faithfully; verdict covers only the executions produced",
]

# property -> config for the standard (in-process oracle, sharded) checks
STANDARD = {
    "C02": {
        "variants": ["rel"],
        "quick": 1600,
        "thorough": 40000,
        "rule": "case = (generated/mutated/real map text, reachable mode, Difficulty without passed_objects); gradual sequence vs "
                "one-shot passed_objects(i) for every prefix (sampled above 150), final vs full, len vs count, passed(n+1) vs full. "
                "non-trivial = sequence has >= 2 values; distinct = distinct (map text, settings, mode) digests",
        "required": {"class:taiko-first2-not-both-hits": 1, "class:short-sequence(<=3)": 1, "mode:osu": 1, "mode:taiko": 1,
                     "mode:catch": 1, "mode:mania": 1},
    },
    "C03": {
        "variants": ["rel"],
        "quick": 12000,
        "thorough": 300000,
        "rule": "case = (map text, reachable mode, Difficulty without passed_objects, random schedule of next/nth(k)/last with random "
                "consistent/inconsistent score states); after every call the result is compared with the one-shot mode-specific "
                "Performance on the same map with passed_objects(cursor) and that state, None iff nothing remained, len() == remaining. "
                "non-trivial = comparison at cursor >= 2; distinct = (map, settings, cursor, state) digests",
        "required": {"mode:osu": 1, "mode:taiko": 1, "mode:catch": 1, "mode:mania": 1},
    },
    "C04": {
        "variants": ["rel"],
        "quick": 6000,
        "thorough": 150000,
        "rule": "case = (map text, reachable mode, Difficulty incl. passed_objects, score specification); 21 entry points "
                "(Performance::new(map|&map|attrs|perf_attrs), attrs.performance(), mode-specific new/try_new/from, try_mode, "
                "mode_or_ignore) each followed by .difficulty(D)+score must equal Performance::new(&converted); embedded "
                "difficulty attributes must equal Difficulty::calculate. non-trivial = map has >= 2 counted objects",
        "required": {"class:convert": 1, "class:passed_objects": 1, "mode:osu": 1, "mode:taiko": 1, "mode:catch": 1, "mode:mania": 1},
    },
    "C07": {
        "variants": ["rel"],
        "quick": 4000,
        "thorough": 100000,
        "rule": "case = map of any native mode (15% already converted) x all 4 target modes x random settings; convert/convert_ref/"
                "convert_mut equal or same error, identity borrowed, convertibility predicate, convert flags, re-conversion rejected, "
                "calculate_for_mode/strains_for_mode/gradual difficulty/gradual performance/Performance::try_mode/mode_or_ignore/"
                "TryFrom<OsuPerformance> on the source equal the calculation on the explicitly converted map. "
                "non-trivial = converted map has >= 2 objects",
        "required": {"class:converted": 1, "class:identity": 1, "class:conversion-rejected": 1, "class:source-already-converted": 1},
    },
    "C08": {
        "variants": ["rel"],
        "quick": 4000,
        "thorough": 100000,
        "rule": "case = (map, reachable mode, base settings, score spec); (1) the same game-allowed legacy combination as u32/"
                "GameModsLegacy/GameModsIntermode/&GameModsIntermode/lazer GameMods must give equal difficulty, strains, performance "
                "(via Difficulty::mods and via Performance::mods) and attribute-builder output; (2) lazer DT/NC/HT/DC with speed_change r "
                "vs default mod + clock_rate(r); (3) lazer DifficultyAdjust(field=v) vs Difficulty::field(v as f32,false) with "
                "NM/HR/EZ/DT/HT combos. Mod sets the game cannot produce (EZ+HR, DT+HT, two key mods) are not generated. "
                "non-trivial = map has >= 2 objects",
        "required": {"rate:NC": 1, "rate:DC": 1, "rate:DT": 1, "rate:HT": 1, "da:ar": 1, "da:cs": 1, "da:hp": 1, "da:od": 1,
                     "repr:Lazer": 1, "repr:Intermode": 1},
    },
    "C15": {
        "variants": ["rel", "dbg"],
        "quick": 6000,
        "thorough": 150000,
        "rule": "case = (map, reachable mode, settings); S = plain next() sequence; 4 random programs over {next, nth(k), len/size_hint, "
                "by_ref().step_by, skip, take, count, last, pokes after exhaustion} with k in {0,1,2,small,rem-1,rem,rem+1,usize::MAX} "
                "against the positional model, zip of two fresh instances, and a gradual-performance schedule vs the next-only run; "
                "both release and debug (overflow-checked) builds. non-trivial = |S| >= 2; distinct = (map, settings, program) digests",
        "required": {"class:short-sequence(<=3)": 1, "mode:osu": 1, "mode:taiko": 1, "mode:catch": 1, "mode:mania": 1},
    },
}


def standard(prop, tier, seed):
    cfg = STANDARD[prop]
    t0 = time.time()
    agg = D.Agg()
    total = cfg[tier]
    for variant in cfg["variants"]:
        binp = D.build(variant)
        D.run_sharded(agg, binp, prop, seed, total, tier, extra=cfg.get("params"), timeout=cfg.get("timeout", 1800),
                      budget=cfg.get("budget"), mem=cfg.get("mem"), variant=variant)
    return D.conclude(prop, tier, seed, agg, t0, cfg["rule"], COMMON_ASSUME + cfg.get("assume", []),
                      required=cfg.get("required"), replay_extra=cfg.get("params"),
                      extra_cov={"variants": cfg["variants"]}, exhaustive=cfg.get("exhaustive"))


def replay(prop, path):
    rec = json.load(open(path))
    if rec.get("property") != prop:
        print(f"replay file is for {rec.get('property')}, not {prop}")
        return 3
    fn = REPLAYERS.get(prop, replay_standard)
    return fn(prop, rec)


def replay_standard(prop, rec):
    variant = rec.get("variant", "rel")
    if variant not in D.VARIANTS:
        variant = "rel"
    binp = D.build(variant)
    os.makedirs(D.RUN, exist_ok=True)
    logp = os.path.join(D.RUN, f"{prop}-replay.log")
    r = D.run_worker(binp, prop, rec["seed"], rec["case"], 1, rec.get("tier", "quick"), logp, rec.get("params") or {})
    pl = D.parse_log(logp)
    sigs = sorted({v["sig"] for v in pl["viol"]})
    crashed = not (pl["done"] and r["rc"] == 0)
    if crashed:
        st = open(r["stderr"], errors="replace").read()[-1500:]
        kind, where = D.classify_crash(r["rc"], pl, st)
        sigs.append(f"{prop}/{kind}@{where}")
    want = rec.get("signature")
    for v in pl["viol"]:
        print(f"  observed: {v['sig']}\n    {(v.get('detail') or '')[:1500]}")
    if want in sigs:
        print(f"VIOLATION property={prop} replay={os.path.abspath(rec.get('_path', '')) or 'replayed'}")
        print(f"  reproduced signature {want}")
        return 1
    if sigs:
        print(f"VIOLATION property={prop} replay=replayed")
        print(f"  recorded signature {want} not reproduced, but other violation(s) observed: {sigs}")
        return 1
    print(f"[{prop}] replay: case {rec['case']} seed {rec['seed']} ran without violation (recorded signature: {want})")
    return 0


REGISTRY = {p: standard for p in STANDARD}
REPLAYERS = {}
