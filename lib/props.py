"""Per-property check definitions (what to build, how many cases per tier, evidence rule)."""
import json
import os
import time

import driver as D

COMMON_ASSUME = [
    "the harness' generators, canonical dump (Debug formatting: shortest round-trip floats, -0.0 and NaN visible) and reference models are correct",
    "rustc/LLVM compile the harness and the library faithfully; verdict covers only the executions produced",
]

# property -> config for the standard (in-process oracle, sharded) checks
STANDARD = {
    "C02": {
        "variants": ["rel"],
        "quick": 1600,
        "thorough": 40000,
        "rule": "case = (generated/mutated/real map text, reachable mode, Difficulty without passed_objects); gradual sequence vs "
                "one-shot passed_objects(i) for every prefix (sampled above 150), final vs full, len vs count, passed(n+1) vs full. "
                "non-trivial = sequence has >= 2 values; distinct = distinct (map text, settings, mode) digests",
        "required": {"class:taiko-first2-not-both-hits": 1, "class:short-sequence(<=3)": 1, "mode:osu": 1, "mode:taiko": 1,
                     "mode:catch": 1, "mode:mania": 1},
    },
}


def standard(prop, tier, seed):
    cfg = STANDARD[prop]
    t0 = time.time()
    agg = D.Agg()
    total = cfg[tier]
    for variant in cfg["variants"]:
        binp = D.build(variant)
        D.run_sharded(agg, binp, prop, seed, total, tier, extra=cfg.get("params"), timeout=cfg.get("timeout", 1800),
                      budget=cfg.get("budget"), mem=cfg.get("mem"), variant=variant)
    return D.conclude(prop, tier, seed, agg, t0, cfg["rule"], COMMON_ASSUME + cfg.get("assume", []),
                      required=cfg.get("required"), replay_extra=cfg.get("params"),
                      extra_cov={"variants": cfg["variants"]}, exhaustive=cfg.get("exhaustive"))


def replay(prop, path):
    rec = json.load(open(path))
    if rec.get("property") != prop:
        print(f"replay file is for {rec.get('property')}, not {prop}")
        return 3
    fn = REPLAYERS.get(prop, replay_standard)
    return fn(prop, rec)


def replay_standard(prop, rec):
    variant = rec.get("variant", "rel")
    if variant not in D.VARIANTS:
        variant = "rel"
    binp = D.build(variant)
    os.makedirs(D.RUN, exist_ok=True)
    logp = os.path.join(D.RUN, f"{prop}-replay.log")
    r = D.run_worker(binp, prop, rec["seed"], rec["case"], 1, rec.get("tier", "quick"), logp, rec.get("params") or {})
    pl = D.parse_log(logp)
    sigs = sorted({v["sig"] for v in pl["viol"]})
    crashed = not (pl["done"] and r["rc"] == 0)
    if crashed:
        st = open(r["stderr"], errors="replace").read()[-1500:]
        kind, where = D.classify_crash(r["rc"], pl, st)
        sigs.append(f"{prop}/{kind}@{where}")
    want = rec.get("signature")
    for v in pl["viol"]:
        print(f"  observed: {v['sig']}\n    {(v.get('detail') or '')[:1500]}")
    if want in sigs:
        print(f"VIOLATION property={prop} replay={os.path.abspath(rec.get('_path', '')) or 'replayed'}")
        print(f"  reproduced signature {want}")
        return 1
    if sigs:
        print(f"VIOLATION property={prop} replay=replayed")
        print(f"  recorded signature {want} not reproduced, but other violation(s) observed: {sigs}")
        return 1
    print(f"[{prop}] replay: case {rec['case']} seed {rec['seed']} ran without violation (recorded signature: {want})")
    return 0


REGISTRY = {p: standard for p in STANDARD}
REPLAYERS = {}
