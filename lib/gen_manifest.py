#!/usr/bin/env python3
"""Regenerate /verif/MANIFEST.json from the table below (keeps all 20 entries consistent)."""
import json
import os

VERIF = os.path.dirname(os.path.dirname(os.path.abspath(__file__)))

CHECKS = {
    "C01": ("runtime monitoring: first-seen history oracle over random call histories (threads, reused builders) + offline join of "
            "event logs from several processes with different hash seeds / heap layouts / environments / case orders; slow calls observed "
            "with and without injected CPU load; purity check by clone comparison",
            "held on K executions; refutes dependence on hash seeds, previous calls and layout only across the processes, "
            "threads and times actually produced"),
    "C02": ("runtime monitoring: differential oracle, gradual sequence vs one-shot passed_objects(i) on every prefix, over seeded "
            "generated / mutated / real maps",
            "relational monitor; covers only executions produced; Debug-based canonical dump is the equality"),
    "C03": ("runtime monitoring: model of the cursor (idx' = min(idx+k+1,total)) + differential oracle against the one-shot "
            "mode-specific Performance after every next/nth/last call of a random schedule",
            "relational monitor over random schedules and score states"),
    "C04": ("runtime monitoring: 21 entry points of the performance builder compared with the calculation on the explicitly "
            "converted map; embedded difficulty attributes compared with Difficulty::calculate",
            "relational monitor; entry points enumerated by hand from the public API"),
    "C05": ("runtime monitoring with the runtime as oracle: panic hook, worker exit status/signal attribution, per-API-call CPU-time "
            "watchdog (gdb stack signature, isolated confirmation run), RLIMIT_AS + allocation-failure reporter, per-call heap high-water "
            "mark from a counting global allocator (budget 256 MiB + 160 B per strain section); release sweep over the "
            "adversarial domain and debug (overflow-checked) sweep over the realistic domain",
            "bounded progress instead of termination (30 CPU-s per call); domain filter evaluated by the harness; paths not driven are not judged"),
    "C06": ("runtime monitoring: invariant oracle on every decode result (sortedness, pairing via unique ids, strict control point "
            "order, clamps), path equality bytes/str/file with the decoder perturbed by other content between the entry points, "
            "a counted class of slider lines with doubled / dangling / leading separators and lost points in the curve field, "
            "reference-model comparison of TandemSorter and the legacy sort",
            "invariants taken from the property statement; hostile inputs are generated, not enumerated"),
    "C07": ("runtime monitoring: differential oracle, three conversion entry points against each other and every mode-dispatching API "
            "against the calculation on the explicitly converted map",
            "relational monitor over maps of all native modes and all targets"),
    "C08": ("runtime monitoring: differential oracle across the five mod representations, rate-mod speed_change vs clock_rate, "
            "DifficultyAdjust vs attribute overrides",
            "only mod combinations the game allows are generated"),
    "C09": ("runtime monitoring: invariant oracle (visitor over every f64 of every result struct: finite, non-negative where rated, "
            "accuracy in [0,1], zero-object play == 0 pp)",
            "covers game-reachable settings on generated realistic maps; NaN from formulas mirrored from lazer would still be reported"),
    "C10": ("runtime monitoring: cross-build differential execution, one seeded job list run by four separately built binaries "
            "(default, raw_strains, sync, both), offline join of the result logs (numeric equality, -0 == 0); maps include long dense ones "
            "and mid-size maps built from rhythm phases (look-back windows of the skills end in a different phase); besides calculator results "
            "also check_suspicion/bpm/break time/attribute builder output and the converted map are compared",
            "differential execution across builds; equality is numeric as the property states"),
    "C11": ("sanitizers + runtime monitoring: Miri under Stacked Borrows and Tree Borrows, AddressSanitizer (also over the C02/C05/C06 "
            "workloads), valgrind memcheck, debug assertions, and a Vec<f64> reference model checked after every StrainsVec operation",
            "Miri/ASan/memcheck see only the executions produced; verdict rule: Tree-Borrows UB, non-aliasing UB, sanitizer error or "
            "model mismatch = violation, Stacked-Borrows-only tag reports = advisory"),
    "C12": ("runtime monitoring: invariant oracle S1-S6 on generated score states over attribute shapes built from public struct "
            "literals and random/hostile provided-field subsets; one request in four directly preceded on the same thread by the same request "
            "for a neighbouring shape (history oracle)",
            "clause S3 binds only when the provided results fit, as the statement says; shapes are sampled"),
    "C13": ("runtime monitoring with a brute-force oracle: exhaustive enumeration of all small attribute shapes x misses x accuracy "
            "grid x priorities x origins, every generated state compared with the best of ALL hit-result distributions; large shapes sampled; "
            "same oracle for plays specified on a map-based builder before try_mode/mode_or_ignore; one request in three preceded on the same "
            "thread by the same request for a shape differing in one count; mania shapes of 700-1600 objects judged by a closed-form optimum "
            "that is self-checked against enumeration",
            "exhaustive over the stated small-shape space (evidence reports its size), exploration beyond; accuracy definition = the "
            "crate's public ScoreState::accuracy"),
    "C14": ("runtime monitoring: independent reference counts from public fields of the converted map + monotonicity / min(n,total) / "
            "beyond-total invariants over every prefix length; reference models for HoldOff and Invert",
            "reference counts are recomputed by the harness from Beatmap fields only"),
    "C15": ("runtime monitoring: sequential reference model of the iterator protocol (position model) against random programs of "
            "next/nth/len/size_hint/step_by/skip/take/count/last/zip, in release and overflow-checked debug builds",
            "model is 20 lines; programs are random, k hits the boundary values"),
    "C16": ("runtime monitoring: invariant oracle on strain peaks + re-aggregation with the documented decay-weighted sum compared "
            "with the reported rating (<= 4 ulp)",
            "aggregation re-implemented by the harness in the same operation order"),
    "C17": ("runtime monitoring: invariant oracles A1-A6 over a dense grid of builder configurations and attribute values, plus "
            "differential comparison with the values stored by the calculators (one-shot, gradual first/last, performance-embedded, performance "
            "configured through its own setters before/after the mode switch)",
            "mania's rate-quantised great window is exempt from inverse clock scaling (documented port of lazer)"),
    "C18": ("runtime monitoring: differential oracle over random setter programs (Performance setters vs Difficulty setters, "
            "permutations, inspect round trip, clamps through inspect and through results, documented no-ops; setter programs split around the "
            "mode switch of a builder started on the unconverted map)",
            "NaN arguments excluded"),
    "C19": ("runtime monitoring: invariant oracle on the fields of converted maps (sortedness, durations, strict control points, "
            "taiko sound pairing length, mania key count and raw column range, catch identity)",
            "osu!standard sources from all generator profiles, key mods in all seven representations of the shared generator"),
    "C20": ("runtime monitoring + sanitizers: thread-pool run vs sequential run of the same job list with measured overlap, "
            "ThreadSanitizer (sync feature, instrumented std), hand-over chains of a gradual calculator through fresh threads and "
            "ping-pong over persistent threads, Miri "
            "data-race detector with several scheduler seeds",
            "OS schedules are sampled; evidence records thread counts and measured overlap; a run without overlap is inconclusive"),
}


def main():
    props = [json.loads(l) for l in open(os.path.join(VERIF, "properties.jsonl"))]
    hooks_commit = "b088d5b"
    checks = []
    for p in props:
        pid = p["id"]
        tech, note = CHECKS[pid]
        cat = "exploration"
        checks.append({
            "property_id": pid,
            "quick_cmd": f"./check {pid} --tier quick",
            "thorough_cmd": f"./check {pid} --tier thorough",
            "evidence_file": f"/verif/evidence/{pid}.json",
            "replay_cmd_template": f"./check {pid} --replay {{path}}",
            "engine": "rpv+check",
            "level_claimed": {
                "category": cat,
                "text": ("held on the executions produced (counts in the evidence file); " + tech),
                "design_ref": f"DESIGN.md section 3/{pid} and section 8",
            },
            "level_note": note + "; trusted base: harness generators, Debug-based canonical dump, rustc/LLVM, Miri, sanitizer runtimes, gdb",
            "technique": tech.split(":")[0] + ": " + tech.split(":", 1)[1].strip()[:160],
        })
    manifest = {
        "version": 1,
        "setup_cmd": "./check --setup",
        "hooks": {
            "guard": "cargo feature verif_hooks (off by default)",
            "enable": "the harness depends on rosu-pp = { path = \"/repo\", features = [\"verif_hooks\"] }; every check runs cargo build "
                      "(incremental) against /repo's working tree before it executes anything",
            "baseline_off_cmd": "cd /repo && cargo test --workspace --no-fail-fast --offline",
            "source_commits": [hooks_commit],
            "add_only": True,
        },
        "engines": [
            {"name": "rpv", "path": "harness/rpv", "serves_properties": [p["id"] for p in props],
             "kind_free_text": "Rust monitor binary (one subcommand per property): seeded workload generators (grammar-based .osu writer "
                               "with hostile profiles, fixture mutation, byte noise, settings/score generators), in-process oracles, "
                               "per-API-call CPU watchdog, panic capture, event log; built as rel/dbg/raw/sync/rawsync/asan/tsan and run under Miri"},
            {"name": "check", "path": "check", "serves_properties": [p["id"] for p in props],
             "kind_free_text": "python driver (lib/driver.py, lib/props.py): rebuild from /repo, shard over 16 worker processes, crash/hang/OOM "
                               "attribution with isolated confirmation, offline joins of event logs (cross-process, cross-build), Miri/ASan/"
                               "TSan/valgrind campaigns, known-findings matching, evidence writer, three-valued verdict"},
        ],
        "checks": checks,
        "not_applicable": [],
        "notes": "exit 0 = held on everything explored (KNOWN-FINDING lines for listed findings), exit 1 = VIOLATION line(s), exit 2 = "
                 "inconclusive (never a VIOLATION line). VERIF_SEED seeds every random choice. known_findings.json lists repaired "
                 "defects (status fixed, suppress nothing) and the one recorded finding (C12 catch tiny droplets).",
    }
    with open(os.path.join(VERIF, "MANIFEST.json"), "w") as f:
        json.dump(manifest, f, indent=1)
        f.write("\n")
    print("MANIFEST.json written with", len(checks), "checks")


if __name__ == "__main__":
    main()
