"""Driver shared by all checks: build -> sharded workers -> crash attribution -> known-findings
matching -> evidence -> verdict.  See /verif/DESIGN.md section 2.5.

Verdicts: exit 0 = held on everything explored (KNOWN-FINDING lines allowed),
          exit 1 = VIOLATION line(s) printed, exit 2 = inconclusive / broken harness (no VIOLATION line).
"""
import concurrent.futures as cf
import hashlib
import json
import os
import re
import shutil
import signal
import subprocess
import sys
import time

VERIF = os.path.dirname(os.path.dirname(os.path.abspath(__file__)))
HARNESS = os.path.join(VERIF, "harness")
RUN = os.path.join(VERIF, ".run")
TARGET = os.path.join(VERIF, "target")
REPLAYS = os.path.join(VERIF, "replays")
EVIDENCE = os.path.join(VERIF, "evidence")
KNOWN = os.path.join(VERIF, "known_findings.json")
NCPU = min(16, os.cpu_count() or 4)
MAX_CRASH_VIOLATIONS = 4

ENV_BASE = dict(os.environ)
ENV_BASE["CARGO_NET_OFFLINE"] = "true"
ENV_BASE.setdefault("CARGO_TERM_COLOR", "never")

VARIANTS = {
    # name: (toolchain, cargo args, extra env, binary path relative to target dir)
    "rel": ("", ["build", "--release", "-p", "rpv"], {}, "release/rpv"),
    "dbg": ("", ["build", "-p", "rpv"], {}, "debug/rpv"),
    "raw": ("", ["build", "--release", "-p", "rpv", "--features", "raw_strains"], {}, "release/rpv"),
    "sync": ("", ["build", "--release", "-p", "rpv", "--features", "sync"], {}, "release/rpv"),
    "rawsync": ("", ["build", "--release", "-p", "rpv", "--features", "raw_strains,sync"], {}, "release/rpv"),
    "asan": (
        "+nightly",
        ["build", "--release", "-p", "rpv", "--target", "x86_64-unknown-linux-gnu"],
        {"RUSTFLAGS": "-Zsanitizer=address -Cforce-frame-pointers=yes"},
        "x86_64-unknown-linux-gnu/release/rpv",
    ),
    "tsan": (
        "+nightly",
        ["build", "--release", "-p", "rpv", "--features", "sync", "--target", "x86_64-unknown-linux-gnu", "-Zbuild-std"],
        {"RUSTFLAGS": "-Zsanitizer=thread"},
        "x86_64-unknown-linux-gnu/release/rpv",
    ),
}


def log(msg):
    print(msg, flush=True)


class Inconclusive(Exception):
    pass


def sync_lockfile():
    src = "/repo/Cargo.lock"
    dst = os.path.join(HARNESS, "Cargo.lock")
    try:
        if os.path.exists(src):
            a = open(src, "rb").read()
            if not os.path.exists(dst):
                # only seed it once; cargo keeps it up to date (adds the harness crates)
                open(dst, "wb").write(a)
    except OSError:
        pass


def build(variant):
    """(Re)build the harness variant against /repo's current working tree. Returns the binary path."""
    tool, args, env_extra, rel = VARIANTS[variant]
    tdir = os.path.join(TARGET, variant)
    os.makedirs(tdir, exist_ok=True)
    os.makedirs(RUN, exist_ok=True)
    sync_lockfile()
    env = dict(ENV_BASE)
    env.update(env_extra)
    env["CARGO_TARGET_DIR"] = tdir
    cmd = ["cargo"] + ([tool] if tool else []) + args + ["--offline"]
    t0 = time.time()
    blog = os.path.join(RUN, f"build-{variant}.log")
    with open(blog, "w") as f:
        r = subprocess.run(cmd, cwd=HARNESS, env=env, stdout=f, stderr=subprocess.STDOUT)
    if r.returncode != 0:
        tail = "".join(open(blog).readlines()[-25:])
        raise Inconclusive(f"build of variant {variant} failed (see {blog}):\n{tail}")
    binp = os.path.join(tdir, rel)
    if not os.path.exists(binp):
        raise Inconclusive(f"binary {binp} missing after build")
    log(f"[build] variant={variant} {time.time() - t0:.1f}s")
    return binp


# ------------------------------------------------------------------------------------------------
# worker execution

def parse_log(path):
    """Parse a worker log. Returns dict(done, open_case, violations, stats, hang, oom, herr)."""
    res = {"done": False, "open": None, "last_end": None, "viol": [], "stats": None, "hang": None, "oom": None, "layout": None, "herr": []}
    if not os.path.exists(path):
        return res
    with open(path, "r", errors="replace") as f:
        for line in f:
            line = line.rstrip("\n")
            if not line:
                continue
            c = line[0]
            if c == "B" and line[1:2] == " ":
                try:
                    res["open"] = int(line[2:])
                except ValueError:
                    pass
            elif c == "E" and line[1:2] == " ":
                parts = line.split()
                try:
                    res["last_end"] = int(parts[1])
                    if res["open"] == res["last_end"]:
                        res["open"] = None
                except (ValueError, IndexError):
                    pass
            elif c == "V" and line[1:2] == " ":
                try:
                    res["viol"].append(json.loads(line[2:]))
                except json.JSONDecodeError:
                    res["herr"].append("unparsable V line")
            elif c == "X" and line[1:2] == " ":
                try:
                    res["herr"].append(json.loads(line[2:]))
                except json.JSONDecodeError:
                    res["herr"].append(line[2:])
            elif c == "S" and line[1:2] == " ":
                try:
                    res["stats"] = json.loads(line[2:])
                except json.JSONDecodeError:
                    res["herr"].append("unparsable S line")
            elif line == "DONE":
                res["done"] = True
            elif line.startswith("HANG "):
                res["hang"] = dict(kv.split("=", 1) for kv in line[5:].split() if "=" in kv)
            elif line.startswith("OOM "):
                res["oom"] = dict(kv.split("=", 1) for kv in line[4:].split() if "=" in kv)
            elif line.startswith("LAYOUT "):
                res["layout"] = dict(kv.split("=", 1) for kv in line[7:].split() if "=" in kv)
    return res


def run_worker(binp, prop, seed, start, count, tier, logp, extra=None, timeout=1800, env=None, budget=None, mem=None):
    cmd = [binp, prop, "--seed", str(seed), "--start", str(start), "--count", str(count), "--tier", tier, "--log", logp]
    if budget is not None:
        cmd += ["--budget", str(budget)]
    if mem is not None:
        cmd += ["--mem", str(mem)]
    for k, v in (extra or {}).items():
        if k == "--hist":
            cmd += ["--hist", v]
        else:
            cmd += ["--param", f"{k}={v}"]
    e = dict(ENV_BASE)
    if env:
        e.update(env)
    errp = logp + ".stderr"
    t0 = time.time()
    timed_out = False
    with open(errp, "w") as ef:
        p = subprocess.Popen(cmd, stdout=subprocess.DEVNULL, stderr=ef, env=e, cwd=VERIF)
        try:
            rc = p.wait(timeout=timeout)
        except subprocess.TimeoutExpired:
            timed_out = True
            p.kill()
            rc = p.wait()
    return {"rc": rc, "timed_out": timed_out, "wall": time.time() - t0, "log": logp, "stderr": errp, "cmd": cmd}


class Agg:
    def __init__(self):
        self.counters = {}
        self.viol = []          # violation records (dicts with sig, case, detail, input)
        self.viol_sig_counts = {}
        self.samples = []
        self.digests = set()
        self.herr = []
        self.inconclusive = []  # reasons
        self.crashes = 0
        self.cases_run = 0
        self.crash_violations = 0   # confirmed crash / hang / OOM violations
        self.over_budget = []       # cases of a non-C05 workload that were too expensive to finish (skipped, reported)
        self.cases_skipped_after_crashes = 0

    def add_stats(self, st):
        if not st:
            return
        for k, v in st.get("counters", {}).items():
            if k.startswith("max_"):
                self.counters[k] = max(self.counters.get(k, 0), v)
            else:
                self.counters[k] = self.counters.get(k, 0) + v
        for k, v in st.get("viol_sigs", {}).items():
            self.viol_sig_counts[k] = self.viol_sig_counts.get(k, 0) + v
        for s in st.get("samples", []):
            if len(self.samples) < 6:
                self.samples.append(s)
        self.digests.update(st.get("digests", []))


def run_range(agg, binp, prop, seed, start, count, tier, tag, extra=None, timeout=1800, env=None, budget=None, mem=None,
              variant="rel"):
    """Run cases [start, start+count) in one worker process; on a crash attribute it to the open
    case and resume after it in a fresh process."""
    cur = start
    end = start + count
    part = 0
    while cur < end:
        if agg.crash_violations >= MAX_CRASH_VIOLATIONS:
            # the verdict is already "violated"; every further hang costs a full watchdog budget
            agg.cases_skipped_after_crashes += end - cur
            return
        logp = os.path.join(RUN, f"{prop}-{tag}-{cur}-{part}.log")
        r = run_worker(binp, prop, seed, cur, end - cur, tier, logp, extra, timeout, env, budget, mem)
        pl = parse_log(logp)
        agg.viol.extend(dict(v, variant=variant) for v in pl["viol"])
        agg.herr.extend(pl["herr"])
        agg.add_stats(pl["stats"])
        if pl["done"] and r["rc"] == 0:
            agg.cases_run += end - cur
            return
        # abnormal end
        agg.crashes += 1
        open_case = pl["open"]
        if r["timed_out"]:
            agg.inconclusive.append(f"worker wall-clock timeout ({timeout}s) in case {open_case} ({tag})")
            if open_case is None:
                return
            cur = open_case + 1
            part += 1
            continue
        if open_case is None:
            # crashed outside of a case (startup / finish): harness problem
            tail = open(r["stderr"], errors="replace").read()[-600:]
            agg.inconclusive.append(f"worker died outside a case rc={r['rc']} ({tag}): {tail}")
            return
        stderr_tail = open(r["stderr"], errors="replace").read()[-6000:]
        kind, where = classify_crash(r["rc"], pl, stderr_tail)
        # confirm on an isolated re-run of that single case
        clog = os.path.join(RUN, f"{prop}-{tag}-confirm-{open_case}.log")
        r2 = run_worker(binp, prop, seed, open_case, 1, tier, clog, extra, timeout, env, budget, mem)
        pl2 = parse_log(clog)
        if pl2["done"] and r2["rc"] == 0:
            # not reproducible in isolation: not a verdict
            agg.inconclusive.append(f"crash ({kind}@{where}) in case {open_case} not reproduced in isolation")
            agg.viol.extend(dict(v, variant=variant) for v in pl2["viol"])
            agg.add_stats(pl2["stats"])
        else:
            st2 = open(r2["stderr"], errors="replace").read()[-6000:]
            kind2, where2 = classify_crash(r2["rc"], pl2, st2)
            busy_hang = kind2 == "hang" and (pl2.get("hang") or {}).get("kind", "busy") == "busy"
            if r2["timed_out"]:
                agg.inconclusive.append(f"confirmation run of case {open_case} hit the wall-clock limit")
            elif prop != "C05" and (busy_hang or kind2 == "oom"):
                # a CPU-bound call beyond the time budget (or an allocation beyond the memory limit) is C05's subject, judged
                # there inside its domain filter; in the workload of another property it only means that this case was too
                # expensive to finish - not a verdict about that property (a call that BLOCKS without using CPU still is)
                agg.over_budget.append(f"case {open_case} exceeded the {kind2} budget at {where2} ({tag})")
            else:
                agg.viol.append({
                    "sig": f"{prop}/{kind2}@{where2}",
                    "case": open_case,
                    "seed": seed,
                    "detail": f"worker died while running case {open_case}: {kind2} at {where2}; rc={r2['rc']}; stderr tail: {st2[-800:]}",
                    "input": None,
                    "variant": variant,
                })
                agg.viol_sig_counts[f"{prop}/{kind2}@{where2}"] = agg.viol_sig_counts.get(f"{prop}/{kind2}@{where2}", 0) + 1
                agg.crash_violations += 1
        agg.cases_run += open_case + 1 - cur
        cur = open_case + 1
        part += 1


def classify_crash(rc, pl, stderr_tail):
    if pl.get("hang"):
        h = pl["hang"]
        frame = h.get("frame", "unknown")
        if frame == "unknown":
            frame = "api:" + h.get("label", "unknown")
        return "hang", frame
    if pl.get("oom"):
        return "oom", "api:" + pl["oom"].get("label", "unknown")
    if pl.get("layout"):
        # the size-checking allocator of the harness: a block was freed / resized with a size other than the one it was
        # allocated with (undefined behaviour of the caller, e.g. Vec::from_raw_parts with a wrong capacity)
        return "dealloc-size-mismatch", "api:" + pl["layout"].get("label", "unknown")
    if "has overflowed its stack" in stderr_tail:
        return "stack-overflow", "unknown"
    m = re.search(r"ERROR: AddressSanitizer: ([a-z-]+)", stderr_tail)
    if m:
        fr = re.search(r"#\d+ 0x[0-9a-f]+ in ((?:rosu_pp|rosu_map)[^ ]*)", stderr_tail)
        return "asan:" + m.group(1), (fr.group(1) if fr else "unknown")
    if "ThreadSanitizer" in stderr_tail:
        k = re.search(r"WARNING: ThreadSanitizer: ([a-z -]+)", stderr_tail)
        fr = re.search(r"#\d+ ((?:rosu_pp|rosu_map)[^ ]*)", stderr_tail)
        return "tsan:" + (k.group(1).strip().replace(" ", "-") if k else "report"), (fr.group(1) if fr else "unknown")
    if rc < 0:
        try:
            return "signal:" + signal.Signals(-rc).name, "unknown"
        except ValueError:
            return f"signal:{-rc}", "unknown"
    return f"exit:{rc}", "unknown"


def run_sharded(agg, binp, prop, seed, total, tier, extra=None, chunk=None, timeout=1800, env=None, budget=None, mem=None,
                variant="rel", tag="w", start=0, workers=NCPU):
    """Run cases [start, start+total) over a pool of worker processes."""
    if total <= 0:
        return
    if chunk is None:
        chunk = max(1, (total + workers * 4 - 1) // (workers * 4))
    jobs = []
    s = start
    while s < start + total:
        n = min(chunk, start + total - s)
        jobs.append((s, n))
        s += n
    with cf.ThreadPoolExecutor(max_workers=workers) as ex:
        futs = [ex.submit(run_range, agg, binp, prop, seed, s, n, tier, f"{tag}{variant}", extra, timeout, env, budget, mem, variant)
                for (s, n) in jobs]
        for f in futs:
            f.result()


# ------------------------------------------------------------------------------------------------
# known findings, replays, evidence, verdict

def load_known():
    if not os.path.exists(KNOWN):
        return []
    return json.load(open(KNOWN)).get("findings", [])


def sig_file(sig):
    h = hashlib.sha1(sig.encode()).hexdigest()[:10]
    safe = re.sub(r"[^A-Za-z0-9_.@+-]+", "_", sig)[:80]
    return f"{safe}-{h}.json"


def write_replay(prop, v, tier, extra=None):
    d = os.path.join(REPLAYS, prop)
    os.makedirs(d, exist_ok=True)
    p = os.path.join(d, sig_file(v["sig"]))
    rec = {
        "property": prop,
        "signature": v["sig"],
        "seed": v.get("seed"),
        "case": v.get("case"),
        "tier": tier,
        "variant": v.get("variant", "rel"),
        "params": extra or {},
        "detail": v.get("detail"),
        "input": v.get("input"),
        "replay_cmd": f"./check {prop} --replay {p}",
    }
    with open(p, "w") as f:
        json.dump(rec, f, indent=1)
    return p


def conclude(prop, tier, seed, agg, t0, rule, assumptions, required=None, level="exploration", extra_cov=None,
             replay_extra=None, exhaustive=None):
    """Match violations against known findings, write evidence, print verdict lines, return exit code."""
    known = [k for k in load_known() if k.get("property") == prop]
    known_active = {k["signature"]: k for k in known if k.get("status") == "known"}
    by_sig = {}
    for v in agg.viol:
        by_sig.setdefault(v["sig"], []).append(v)
    new_sigs = []
    known_hit = []
    for sig, vs in sorted(by_sig.items()):
        if sig in known_active:
            known_hit.append((sig, vs))
        else:
            new_sigs.append((sig, vs))

    cov = {
        "evaluations": int(agg.counters.get("evaluations", 0)),
        "distinct_nontrivial": len(agg.digests),
        "rule": rule,
        "samples": agg.samples[:6] if agg.samples else [],
        "cases_run": agg.cases_run,
        "counters": {k: v for k, v in sorted(agg.counters.items())},
        "violation_signatures": {k: v for k, v in sorted(agg.viol_sig_counts.items())},
        "known_findings_hit": [s for s, _ in known_hit],
        "worker_crashes_attributed": agg.crashes,
        "cases_skipped_after_confirmed_crashes": agg.cases_skipped_after_crashes,
        "inconclusive_reasons": agg.inconclusive[:20],
        "cases_skipped_over_budget": agg.over_budget[:20],
        "harness_errors": agg.herr[:10],
    }
    if exhaustive is not None:
        cov["exhaustive"] = bool(exhaustive)
    if extra_cov:
        cov.update(extra_cov)

    inconclusive = list(agg.inconclusive)
    if len(agg.over_budget) > 5:
        inconclusive.append(f"{len(agg.over_budget)} cases exceeded the time/memory budget and were skipped: {agg.over_budget[0]}")
    if agg.herr:
        inconclusive.append(f"{len(agg.herr)} harness error(s): {agg.herr[0]}")
    if cov["evaluations"] == 0:
        inconclusive.append("no oracle evaluation was performed")
    if cov["distinct_nontrivial"] < 2:
        inconclusive.append("fewer than 2 distinct non-trivial cases")
    for key, minimum in (required or {}).items():
        if agg.counters.get(key, 0) < minimum:
            inconclusive.append(f"required class '{key}' observed {agg.counters.get(key, 0)} < {minimum} times")

    rc = 0
    lines = []
    for sig, vs in known_hit:
        k = known_active[sig]
        lines.append(f"KNOWN-FINDING: property={prop} {sig} :: {k.get('what', '')} (seen {agg.viol_sig_counts.get(sig, len(vs))}x)")
    for sig, vs in new_sigs:
        p = write_replay(prop, vs[0], tier, replay_extra)
        lines.append(f"VIOLATION property={prop} replay={p}")
        lines.append(f"  signature: {sig} (seen {agg.viol_sig_counts.get(sig, len(vs))}x)")
        lines.append("  " + (vs[0].get("detail") or "")[:1200].replace("\n", "\n  "))
        rc = 1
    if rc == 0 and inconclusive:
        rc = 2

    ev = {
        "property_id": prop,
        "tier": tier,
        "seed": int(seed),
        "level": level,
        "coverage": cov,
        "assumptions": assumptions,
        "wall_s": round(time.time() - t0, 2),
        "violations": len(new_sigs),
        "verdict": {0: "held-on-observed", 1: "violated", 2: "inconclusive"}[rc],
    }
    if not cov["samples"]:
        cov["samples"] = ["(no sample recorded)"]
    os.makedirs(EVIDENCE, exist_ok=True)
    with open(os.path.join(EVIDENCE, f"{prop}.json"), "w") as f:
        json.dump(ev, f, indent=1, sort_keys=False)
        f.write("\n")

    for l in lines:
        log(l)
    log(f"[{prop}] tier={tier} seed={seed} cases={agg.cases_run} evaluations={cov['evaluations']} "
        f"distinct_nontrivial={cov['distinct_nontrivial']} new_violation_sigs={len(new_sigs)} "
        f"known_hit={len(known_hit)} wall={ev['wall_s']}s verdict={ev['verdict']}")
    if rc == 2:
        for r in inconclusive[:10]:
            log(f"INCONCLUSIVE: {r}")
    return rc


def clean_run_dir(prop):
    os.makedirs(RUN, exist_ok=True)
    for fn in os.listdir(RUN):
        if fn.startswith(prop + "-"):
            try:
                os.remove(os.path.join(RUN, fn))
            except OSError:
                pass


def get_seed():
    try:
        return int(os.environ.get("VERIF_SEED", "1"))
    except ValueError:
        return 1
