#!/usr/bin/env python3
"""Seeded-change bookkeeping.

  seeded.py import <PROP> <worktree> [<name>]  copy patch + demo + notes of a sub-agent's worktree to /verif/seeded/<name>/
  seeded.py verify <name>                      scratch worktree of /repo: demo passes without / fails with the patch,
                                               crate builds (default, sync, raw_strains) and the existing tests still pass
  seeded.py eval <name> [C02,C15,...] [tier]   apply the patch to /repo, run the checks, ALWAYS undo, record the outcome
"""
import json
import os
import shutil
import subprocess
import sys
import time

VERIF = os.path.dirname(os.path.dirname(os.path.abspath(__file__)))
SEEDED = os.path.join(VERIF, "seeded")
ENV = dict(os.environ, CARGO_NET_OFFLINE="true", CARGO_TERM_COLOR="never")


def sh(cmd, cwd=None, timeout=3600, env=None):
    r = subprocess.run(cmd, cwd=cwd, shell=isinstance(cmd, str), capture_output=True, text=True, timeout=timeout, env=env or ENV)
    return r.returncode, r.stdout + r.stderr


def do_import(prop, wt, name=None):
    name = name or prop
    d = os.path.join(SEEDED, name)
    os.makedirs(d, exist_ok=True)
    rc, diff = sh("git diff -- src Cargo.toml", cwd=wt)
    if not diff.strip():
        print("no source diff in", wt)
        return 1
    open(os.path.join(d, "patch.diff"), "w").write(diff)
    for cand in ("tests/seeded_demo.rs", "examples/seeded_demo.rs"):
        p = os.path.join(wt, cand)
        if os.path.exists(p):
            shutil.copy(p, os.path.join(d, os.path.basename(cand)))
    n = os.path.join(wt, "SEEDED_NOTES.md")
    if os.path.exists(n):
        shutil.copy(n, os.path.join(d, "SEEDED_NOTES.md"))
    meta = {"id": name, "breaks_property": prop, "source": "independent sub-agent given only the property text and a scratch worktree",
            "needs_to_manifest": "see SEEDED_NOTES.md", "verified": None, "checks": {}}
    mp = os.path.join(d, "meta.json")
    if not os.path.exists(mp):
        json.dump(meta, open(mp, "w"), indent=1)
    print("imported", name, "patch lines:", len(diff.splitlines()))
    return 0


def do_verify(name, features=""):
    d = os.path.join(SEEDED, name)
    wt = f"/tmp/wtv/{name}"
    sh(f"git -C /repo worktree remove --force {wt}")
    os.makedirs("/tmp/wtv", exist_ok=True)
    rc, out = sh(f"git -C /repo worktree add --detach {wt} HEAD")
    if rc != 0:
        print(out)
        return 1
    res = {}
    try:
        demo = os.path.join(d, "seeded_demo.rs")
        os.makedirs(os.path.join(wt, "tests"), exist_ok=True)
        shutil.copy(demo, os.path.join(wt, "tests", "seeded_demo.rs"))
        meta = json.load(open(os.path.join(d, "meta.json")))
        demo_cmd = meta.get("demo_cmd", "cargo test --offline --test seeded_demo")
        rc0, out0 = sh(demo_cmd, cwd=wt)
        res["demo_without_patch"] = "pass" if rc0 == 0 else "FAIL"
        rc, out = sh(f"git apply {os.path.join(d, 'patch.diff')}", cwd=wt)
        if rc != 0:
            print("patch does not apply:", out)
            return 1
        rc1, out1 = sh(demo_cmd, cwd=wt)
        res["demo_with_patch"] = "fail" if rc1 != 0 else "PASSES (demo does not detect the change)"
        builds = []
        for f in ("", "--features sync", "--features raw_strains"):
            rcb, _ = sh(f"cargo build --offline {f}", cwd=wt)
            builds.append(rcb == 0)
        res["builds(default,sync,raw_strains)"] = builds
        tests = {}
        for nm, cmd in (("lib", "cargo test --offline --lib -- --skip rng_mania_hitresults"),
                        ("decode+performance", "cargo test --offline --test decode --test performance"),
                        ("difficulty", "cargo test --offline --test difficulty -- --skip basic_osu"),
                        ("doc", "cargo test --offline --doc")):
            rct, outt = sh(cmd, cwd=wt, timeout=5400)
            tests[nm] = "pass" if rct == 0 else "FAIL: " + " | ".join(l for l in outt.splitlines() if "FAILED" in l or "panicked" in l)[:400]
        res["existing_tests_with_patch"] = tests
        res["demo_output_tail_with_patch"] = out1[-600:]
    finally:
        sh(f"git -C /repo worktree remove --force {wt}")
        shutil.rmtree(wt, ignore_errors=True)
    ok = (res.get("demo_without_patch") == "pass" and res.get("demo_with_patch") == "fail" and all(res["builds(default,sync,raw_strains)"])
          and all(v == "pass" for v in res["existing_tests_with_patch"].values()))
    meta = json.load(open(os.path.join(d, "meta.json")))
    meta["verified"] = {"ok": ok, "when": time.strftime("%Y-%m-%d %H:%M"), **res}
    json.dump(meta, open(os.path.join(d, "meta.json"), "w"), indent=1)
    print(json.dumps(meta["verified"], indent=1))
    return 0 if ok else 1


def do_eval(name, checks=None, tier="quick"):
    d = os.path.join(SEEDED, name)
    meta = json.load(open(os.path.join(d, "meta.json")))
    checks = checks or [meta["breaks_property"]]
    rc, out = sh("git -C /repo status --porcelain --untracked-files=no")
    if out.strip():
        print("/repo has local modifications; refusing")
        return 1
    rc, out = sh(f"git -C /repo apply {os.path.join(d, 'patch.diff')}")
    if rc != 0:
        print("patch does not apply to /repo:", out)
        return 1
    results = {}
    # the evidence files belong to runs on the unchanged tree: keep them out of these runs' way and put them back afterwards
    saved = {}
    for c in checks:
        ev = os.path.join(VERIF, "evidence", f"{c}.json")
        if os.path.exists(ev):
            saved[ev] = open(ev, "rb").read()
    try:
        for c in checks:
            t0 = time.time()
            rc, out = sh(f"./check {c} --tier {tier}", cwd=VERIF, timeout=7200)
            sigs = [l.strip() for l in out.splitlines() if l.strip().startswith("signature:")]
            results[c] = {"exit": rc, "detected": rc == 1, "wall_s": round(time.time() - t0, 1), "signatures": sigs[:8], "tier": tier}
            print(c, "exit", rc, "sigs", sigs[:4])
    finally:
        sh("git -C /repo checkout -- .")
        for ev, data in saved.items():
            open(ev, "wb").write(data)
        rc, out = sh("git -C /repo status --porcelain --untracked-files=no")
        if out.strip():
            print("WARNING: /repo not clean after undo:", out)
    meta.setdefault("checks", {}).update(results)
    meta["caught_by"] = sorted(c for c, r in meta["checks"].items() if r.get("detected"))
    json.dump(meta, open(os.path.join(d, "meta.json"), "w"), indent=1)
    return 0


if __name__ == "__main__":
    a = sys.argv[1:]
    if not a:
        print(__doc__)
        sys.exit(2)
    if a[0] == "import":
        sys.exit(do_import(a[1], a[2], a[3] if len(a) > 3 else None))
    if a[0] == "verify":
        sys.exit(do_verify(a[1]))
    if a[0] == "eval":
        sys.exit(do_eval(a[1], a[2].split(",") if len(a) > 2 else None, a[3] if len(a) > 3 else "quick"))
    print(__doc__)
    sys.exit(2)
