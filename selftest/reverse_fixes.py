#!/usr/bin/env python3
"""Monitor regression test: re-introduce every repaired defect (git revert --no-commit of its `fix:` commit in /repo's
working tree), run the quick check of the property it belongs to and require a VIOLATION; always restore /repo.

  reverse_fixes.py [commit ...]        (default: every entry of known_findings.json with status fixed)
Writes /verif/selftest/reverse_fixes.json.
"""
import json
import os
import subprocess
import sys
import time

VERIF = os.path.dirname(os.path.dirname(os.path.abspath(__file__)))


def sh(cmd, cwd=None, timeout=7200):
    r = subprocess.run(cmd, cwd=cwd, shell=True, capture_output=True, text=True, timeout=timeout)
    return r.returncode, r.stdout + r.stderr


def main():
    known = json.load(open(os.path.join(VERIF, "known_findings.json")))["findings"]
    todo = [(k["commit"], k["property"], k["signature"]) for k in known if k.get("status") == "fixed"]
    if len(sys.argv) > 1:
        todo = [t for t in todo if t[0] in sys.argv[1:]]
    rc, out = sh("git -C /repo status --porcelain --untracked-files=no")
    if out.strip():
        print("/repo not clean; refusing")
        return 1
    results = []
    for commit, prop, sig in todo:
        rc, out = sh(f"git -C /repo revert --no-commit {commit}")
        entry = {"commit": commit, "property": prop, "expected_signature_example": sig}
        if rc != 0:
            entry["result"] = "revert does not apply cleanly (later fixes touch the same lines)"
            sh("git -C /repo revert --abort")
            sh("git -C /repo reset -q --hard HEAD")
            results.append(entry)
            print(commit, prop, entry["result"])
            continue
        try:
            t0 = time.time()
            rc, out = sh(f"./check {prop} --tier quick", cwd=VERIF)
            sigs = [l.strip()[len("signature: "):] for l in out.splitlines() if l.strip().startswith("signature:")]
            entry.update({"exit": rc, "detected": rc == 1, "wall_s": round(time.time() - t0, 1), "signatures": sigs[:10]})
        finally:
            sh("git -C /repo revert --abort")
            sh("git -C /repo reset -q --hard HEAD")
        results.append(entry)
        print(commit, prop, "exit", entry.get("exit"), "detected", entry.get("detected"), entry.get("signatures", [])[:3])
    rc, out = sh("git -C /repo status --porcelain --untracked-files=no")
    if out.strip():
        print("WARNING: /repo not clean:", out)
    json.dump({"when": time.strftime("%Y-%m-%d %H:%M"), "results": results}, open(os.path.join(VERIF, "selftest", "reverse_fixes.json"), "w"), indent=1)
    missed = [r for r in results if r.get("detected") is False]
    print(f"{len(results)} reversions, {len(missed)} missed")
    return 1 if missed else 0


if __name__ == "__main__":
    sys.exit(main())
