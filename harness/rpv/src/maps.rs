//! Map helpers: decoding, domain filters, canonical dumps, float visitors, reference counts.

use std::fmt::Debug;

use rosu_pp::{
    any::{DifficultyAttributes, PerformanceAttributes, Strains},
    model::{
        hit_object::{HitObjectKind, Slider},
        mode::GameMode,
    },
    Beatmap,
};

use crate::rng::hash_str;

pub const MODES: [GameMode; 4] = [GameMode::Osu, GameMode::Taiko, GameMode::Catch, GameMode::Mania];

pub fn mode_name(m: GameMode) -> &'static str {
    match m {
        GameMode::Osu => "osu",
        GameMode::Taiko => "taiko",
        GameMode::Catch => "catch",
        GameMode::Mania => "mania",
    }
}

pub fn dump<T: Debug>(x: &T) -> String {
    format!("{x:?}")
}

pub fn digest<T: Debug>(x: &T) -> u64 {
    hash_str(&dump(x))
}

/// Numeric (not bitwise) view of a dump: negative zero is printed as zero. Used where a property
/// only promises numerically equal results (C10).
pub fn normalize_neg_zero(d: &str) -> String {
    let b = d.as_bytes();
    let mut out = String::with_capacity(d.len());
    let mut i = 0;
    while i < b.len() {
        if b[i] == b'-' && d[i..].starts_with("-0.0") {
            let next = b.get(i + 4).copied();
            let prev_ok = i == 0 || !(b[i - 1].is_ascii_digit() || b[i - 1] == b'e' || b[i - 1] == b'E');
            if prev_ok && !matches!(next, Some(b'0'..=b'9' | b'e' | b'E')) {
                out.push_str("0.0");
                i += 4;
                continue;
            }
        }
        out.push(b[i] as char);
        i += 1;
    }
    out
}

pub fn decode(text: &str) -> Option<Beatmap> {
    Beatmap::from_bytes(text.as_bytes()).ok()
}

/// Modes reachable from `map` (its own, plus all others for an unconverted osu! map).
pub fn reachable_modes(map: &Beatmap) -> Vec<GameMode> {
    if map.mode == GameMode::Osu && !map.is_convert {
        MODES.to_vec()
    } else {
        vec![map.mode]
    }
}

fn path_len(s: &Slider) -> f64 {
    if let Some(d) = s.expected_dist {
        return d;
    }
    let mut len = 0.0;
    let mut prev: Option<(f32, f32)> = None;
    for cp in s.control_points.iter() {
        if let Some((px, py)) = prev {
            len += f64::from(((cp.pos.x - px).powi(2) + (cp.pos.y - py).powi(2)).sqrt());
        }
        prev = Some((cp.pos.x, cp.pos.y));
    }
    len
}

/// Static estimate of the number of nested objects (ticks, repeats, droplets, drum-roll ticks)
/// all sliders of the map expand to, from public fields only. See DESIGN.md §3/C05.
pub fn slider_work(map: &Beatmap) -> f64 {
    let mut total = 0.0;
    for h in &map.hit_objects {
        if let HitObjectKind::Slider(s) = &h.kind {
            let bl = timing_at(map, h.start_time);
            let sv = sv_at(map, h.start_time);
            let dist = path_len(s).max(0.0);
            let spans = s.span_count() as f64;
            let velocity = 100.0 * map.slider_multiplier * sv / bl; // px per ms
            let mut tick_dist = 100.0 * map.slider_multiplier * sv / map.slider_tick_rate;
            if map.version < 8 {
                tick_dist /= sv;
            }
            let duration = spans * dist / velocity.max(1e-9);
            let ticks = spans * (dist / tick_dist.max(1e-9) + 2.0);
            // catch tiny droplets (<= duration / 40ms) and taiko drum-roll ticks
            total += ticks + duration / 40.0 + duration * map.slider_tick_rate.max(1.0) * 8.0 / bl;
        }
    }
    total
}

pub fn timing_at(map: &Beatmap, t: f64) -> f64 {
    let tp = &map.timing_points;
    if tp.is_empty() {
        return 60_000.0 / 60.0;
    }
    let mut cur = tp[0].beat_len;
    for p in tp {
        if p.time <= t {
            cur = p.beat_len;
        } else {
            break;
        }
    }
    cur.clamp(6.0, 60_000.0)
}

pub fn sv_at(map: &Beatmap, t: f64) -> f64 {
    let mut cur = 1.0;
    for p in &map.difficulty_points {
        if p.time <= t {
            cur = p.slider_velocity;
        } else {
            break;
        }
    }
    cur.clamp(0.1, 10.0)
}

#[derive(Copy, Clone, Debug, PartialEq, Eq)]
pub enum Domain {
    /// C05 adversarial domain
    Adversarial,
    /// what the editor can produce: additionally times in [0, 3h], coordinates in [-512, 1024]
    Realistic,
}

/// Why a map is outside the C05 domain (None = inside).
pub fn out_of_domain(map: &Beatmap, dom: Domain, max_objects: usize) -> Option<&'static str> {
    if map.check_suspicion().is_err() {
        return Some("suspicious");
    }
    if map.hit_objects.len() > max_objects {
        return Some("too_many_objects");
    }
    for h in &map.hit_objects {
        if let HitObjectKind::Slider(s) = &h.kind {
            if s.repeats > 100 {
                return Some("slider_repeats");
            }
            if path_len(s) > 20_000.0 {
                return Some("slider_length");
            }
        }
    }
    if slider_work(map) > 50_000.0 {
        return Some("slider_work");
    }
    if dom == Domain::Realistic {
        const H3: f64 = 3.0 * 3600.0 * 1000.0;
        for h in &map.hit_objects {
            if !(0.0..=H3).contains(&h.start_time) {
                return Some("time_range");
            }
            if !(-512.0..=1024.0).contains(&h.pos.x) || !(-512.0..=1024.0).contains(&h.pos.y) {
                return Some("coord_range");
            }
            match &h.kind {
                HitObjectKind::Spinner(s) if s.duration > H3 => return Some("time_range"),
                HitObjectKind::Hold(s) if s.duration > H3 => return Some("time_range"),
                HitObjectKind::Slider(s) => {
                    for cp in s.control_points.iter() {
                        if cp.pos.x.abs() > 2048.0 || cp.pos.y.abs() > 2048.0 {
                            return Some("coord_range");
                        }
                    }
                }
                _ => {}
            }
        }
        for p in &map.timing_points {
            if !(-H3..=H3).contains(&p.time) {
                return Some("time_range");
            }
        }
    }
    None
}

/// Estimated number of strain sections a calculation at `clock_rate` produces.
pub fn est_sections(map: &Beatmap, clock_rate: f64) -> f64 {
    let (Some(first), Some(last)) = (map.hit_objects.first(), map.hit_objects.last()) else {
        return 0.0;
    };
    ((last.start_time - first.start_time).abs() / clock_rate.max(0.01)) / 400.0
}

// ---------------------------------------------------------------------------------------------
// float visitors

pub fn diff_floats(a: &DifficultyAttributes) -> Vec<(&'static str, f64)> {
    match a {
        DifficultyAttributes::Osu(a) => vec![
            ("aim", a.aim),
            ("aim_difficult_slider_count", a.aim_difficult_slider_count),
            ("speed", a.speed),
            ("flashlight", a.flashlight),
            ("slider_factor", a.slider_factor),
            ("speed_note_count", a.speed_note_count),
            ("aim_difficult_strain_count", a.aim_difficult_strain_count),
            ("speed_difficult_strain_count", a.speed_difficult_strain_count),
            ("ar", a.ar),
            ("great_hit_window", a.great_hit_window),
            ("ok_hit_window", a.ok_hit_window),
            ("meh_hit_window", a.meh_hit_window),
            ("hp", a.hp),
            ("stars", a.stars),
        ],
        DifficultyAttributes::Taiko(a) => vec![
            ("stamina", a.stamina),
            ("rhythm", a.rhythm),
            ("color", a.color),
            ("reading", a.reading),
            ("great_hit_window", a.great_hit_window),
            ("ok_hit_window", a.ok_hit_window),
            ("mono_stamina_factor", a.mono_stamina_factor),
            ("stars", a.stars),
        ],
        DifficultyAttributes::Catch(a) => vec![("stars", a.stars), ("ar", a.ar)],
        DifficultyAttributes::Mania(a) => vec![("stars", a.stars)],
    }
}

/// Names of difficulty floats that must be non-negative (ratings / counts / windows).
pub fn diff_nonneg(name: &str) -> bool {
    !matches!(name, "ar" | "hp")
}

pub fn perf_floats(a: &PerformanceAttributes) -> Vec<(&'static str, f64)> {
    match a {
        PerformanceAttributes::Osu(a) => {
            let mut v = vec![
                ("pp", a.pp),
                ("pp_acc", a.pp_acc),
                ("pp_aim", a.pp_aim),
                ("pp_flashlight", a.pp_flashlight),
                ("pp_speed", a.pp_speed),
                ("effective_miss_count", a.effective_miss_count),
            ];
            if let Some(d) = a.speed_deviation {
                v.push(("speed_deviation", d));
            }
            v
        }
        PerformanceAttributes::Taiko(a) => {
            let mut v = vec![
                ("pp", a.pp),
                ("pp_acc", a.pp_acc),
                ("pp_difficulty", a.pp_difficulty),
                ("effective_miss_count", a.effective_miss_count),
            ];
            if let Some(d) = a.estimated_unstable_rate {
                v.push(("estimated_unstable_rate", d));
            }
            v
        }
        PerformanceAttributes::Catch(a) => vec![("pp", a.pp)],
        PerformanceAttributes::Mania(a) => vec![("pp", a.pp), ("pp_difficulty", a.pp_difficulty)],
    }
}

pub fn strain_vecs(s: &Strains) -> Vec<(&'static str, &Vec<f64>)> {
    match s {
        Strains::Osu(s) => vec![
            ("aim", &s.aim),
            ("aim_no_sliders", &s.aim_no_sliders),
            ("speed", &s.speed),
            ("flashlight", &s.flashlight),
        ],
        Strains::Taiko(s) => vec![
            ("color", &s.color),
            ("reading", &s.reading),
            ("rhythm", &s.rhythm),
            ("stamina", &s.stamina),
            ("single_color_stamina", &s.single_color_stamina),
        ],
        Strains::Catch(s) => vec![("movement", &s.movement)],
        Strains::Mania(s) => vec![("strains", &s.strains)],
    }
}

/// Number of values a gradual calculator of `mode` should produce for the (already converted)
/// map, in the mode's documented unit - computed from the one-shot attributes.
pub fn unit_count(attrs: &DifficultyAttributes) -> u32 {
    match attrs {
        DifficultyAttributes::Osu(a) => a.n_objects(),
        DifficultyAttributes::Taiko(a) => a.max_combo,
        DifficultyAttributes::Catch(a) => a.n_fruits + a.n_droplets,
        DifficultyAttributes::Mania(a) => a.n_objects,
    }
}
