//! Thin wrappers around the public API that dispatch on a runtime `GameMode` and bracket every
//! library call for the watchdog.

use rosu_pp::{
    any::{DifficultyAttributes, PerformanceAttributes, ScoreState, Strains},
    catch::Catch,
    mania::Mania,
    model::mode::{ConvertError, GameMode},
    osu::Osu,
    taiko::Taiko,
    Beatmap, Difficulty, GradualDifficulty, GradualPerformance, Performance,
};

use crate::runner::api;

pub fn calc_for_mode(d: &Difficulty, map: &Beatmap, mode: GameMode) -> Result<DifficultyAttributes, ConvertError> {
    api("difficulty", || match mode {
        GameMode::Osu => d.calculate_for_mode::<Osu>(map).map(DifficultyAttributes::Osu),
        GameMode::Taiko => d.calculate_for_mode::<Taiko>(map).map(DifficultyAttributes::Taiko),
        GameMode::Catch => d.calculate_for_mode::<Catch>(map).map(DifficultyAttributes::Catch),
        GameMode::Mania => d.calculate_for_mode::<Mania>(map).map(DifficultyAttributes::Mania),
    })
}

pub fn strains_for_mode(d: &Difficulty, map: &Beatmap, mode: GameMode) -> Result<Strains, ConvertError> {
    api("strains", || match mode {
        GameMode::Osu => d.strains_for_mode::<Osu>(map).map(Strains::Osu),
        GameMode::Taiko => d.strains_for_mode::<Taiko>(map).map(Strains::Taiko),
        GameMode::Catch => d.strains_for_mode::<Catch>(map).map(Strains::Catch),
        GameMode::Mania => d.strains_for_mode::<Mania>(map).map(Strains::Mania),
    })
}

pub fn calc(d: &Difficulty, map: &Beatmap) -> DifficultyAttributes {
    api("difficulty", || d.calculate(map))
}

pub fn strains(d: &Difficulty, map: &Beatmap) -> Strains {
    api("strains", || d.strains(map))
}

pub fn gradual(d: Difficulty, map: &Beatmap, mode: GameMode) -> Result<GradualDifficulty, ConvertError> {
    api("gradual_difficulty::new", || GradualDifficulty::new_with_mode(d, map, mode))
}

pub fn gradual_perf(d: Difficulty, map: &Beatmap, mode: GameMode) -> Result<GradualPerformance, ConvertError> {
    api("gradual_performance::new", || GradualPerformance::new_with_mode(d, map, mode))
}

pub fn g_next(g: &mut GradualDifficulty) -> Option<DifficultyAttributes> {
    api("gradual_difficulty::next", || g.next())
}

pub fn g_nth(g: &mut GradualDifficulty, n: usize) -> Option<DifficultyAttributes> {
    api("gradual_difficulty::nth", || g.nth(n))
}

pub fn gp_nth(g: &mut GradualPerformance, s: ScoreState, n: usize) -> Option<PerformanceAttributes> {
    api("gradual_performance::nth", || g.nth(s, n))
}

pub fn gp_next(g: &mut GradualPerformance, s: ScoreState) -> Option<PerformanceAttributes> {
    api("gradual_performance::next", || g.next(s))
}

pub fn gp_last(g: &mut GradualPerformance, s: ScoreState) -> Option<PerformanceAttributes> {
    api("gradual_performance::last", || g.last(s))
}

pub fn perf_calc(p: Performance<'_>) -> PerformanceAttributes {
    api("performance::calculate", || p.calculate())
}

pub fn convert(map: &Beatmap, mode: GameMode, mods: &rosu_pp::GameMods) -> Result<Beatmap, ConvertError> {
    api("convert", || map.clone().convert(mode, mods))
}

pub fn convert_err_name(e: &ConvertError) -> String {
    format!("{e:?}")
}
