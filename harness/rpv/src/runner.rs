//! Worker-side infrastructure: event log, panic capture, per-call CPU watchdog, OOM reporter,
//! counters / digests / samples and violation records.

use std::{
    alloc::{GlobalAlloc, Layout, System},
    collections::{BTreeMap, HashSet},
    fs::File,
    io::{BufWriter, Write},
    panic::{self, AssertUnwindSafe},
    sync::atomic::{AtomicBool, AtomicI32, AtomicI64, AtomicU64, AtomicUsize, Ordering},
};

// ---------------------------------------------------------------------------------------------
// libc bits (std links libc anyway)

#[repr(C)]
struct Timespec {
    tv_sec: i64,
    tv_nsec: i64,
}

#[repr(C)]
struct Rlimit {
    cur: u64,
    max: u64,
}

extern "C" {
    fn clock_gettime(clk: i32, tp: *mut Timespec) -> i32;
    fn pthread_self() -> usize;
    fn pthread_getcpuclockid(thread: usize, clk: *mut i32) -> i32;
    fn setrlimit(resource: i32, rlim: *const Rlimit) -> i32;
    fn write(fd: i32, buf: *const u8, n: usize) -> isize;
    fn abort() -> !;
    fn getpid() -> i32;
}

const RLIMIT_AS: i32 = 9;
const CLOCK_MONOTONIC: i32 = 1;

fn clock_ns(clk: i32) -> i64 {
    let mut ts = Timespec { tv_sec: 0, tv_nsec: 0 };
    // SAFETY: valid pointer to a timespec
    unsafe {
        clock_gettime(clk, &mut ts);
    }
    ts.tv_sec * 1_000_000_000 + ts.tv_nsec
}

pub fn set_memory_limit(bytes: u64) {
    let r = Rlimit { cur: bytes, max: bytes };
    // SAFETY: plain syscall
    unsafe {
        setrlimit(RLIMIT_AS, &r);
    }
}

// ---------------------------------------------------------------------------------------------
// allocator wrapper reporting allocation failure with the current case / call label

pub struct ReportingAlloc;

static LOG_FD: AtomicI32 = AtomicI32::new(2);

/// Bytes currently allocated through the global allocator and the highest value seen since the
/// last reset (`api()` resets it when a bracketed call starts): the per-call heap high-water mark.
static LIVE: AtomicI64 = AtomicI64::new(0);
static PEAK: AtomicI64 = AtomicI64::new(0);

#[inline]
fn heap_add(n: usize) {
    let now = LIVE.fetch_add(n as i64, Ordering::Relaxed) + n as i64;
    PEAK.fetch_max(now, Ordering::Relaxed);
}

#[inline]
fn heap_sub(n: usize) {
    LIVE.fetch_sub(n as i64, Ordering::Relaxed);
}

/// Every block of alignment <= 16 carries a 16-byte header with its requested size (and a check word). `dealloc` and
/// `realloc` compare the size the caller claims with the recorded one: a mismatch is undefined behaviour of the caller
/// (e.g. `Vec::from_raw_parts` with a wrong capacity) that the system allocator silently tolerates.
const HDR: usize = 16;
const MAGIC: usize = 0x5ca1_ab1e_0dd5_1ced;

#[inline]
unsafe fn header_layout(size: usize) -> Layout {
    Layout::from_size_align_unchecked(size + HDR, HDR)
}

#[inline]
unsafe fn write_header(base: *mut u8, size: usize) -> *mut u8 {
    let h = base.cast::<usize>();
    h.write(size);
    h.add(1).write(size ^ MAGIC);
    base.add(HDR)
}

/// Returns the base pointer and the recorded size; reports a caller whose claimed size differs.
#[inline]
unsafe fn check_header(ptr: *mut u8, claimed: usize) -> (*mut u8, usize) {
    let base = ptr.sub(HDR);
    let h = base.cast::<usize>();
    let size = h.read();
    if h.add(1).read() != size ^ MAGIC {
        report_layout_mismatch(usize::MAX, claimed);
    }
    if size != claimed {
        report_layout_mismatch(size, claimed);
    }
    (base, size)
}

unsafe impl GlobalAlloc for ReportingAlloc {
    unsafe fn alloc(&self, layout: Layout) -> *mut u8 {
        if layout.align() > HDR {
            let p = System.alloc(layout);
            if p.is_null() && layout.size() > 0 {
                report_oom(layout.size());
            }
            heap_add(layout.size());
            return p;
        }
        let base = System.alloc(header_layout(layout.size()));
        if base.is_null() {
            report_oom(layout.size());
        }
        heap_add(layout.size());
        write_header(base, layout.size())
    }
    unsafe fn dealloc(&self, ptr: *mut u8, layout: Layout) {
        heap_sub(layout.size());
        if layout.align() > HDR {
            System.dealloc(ptr, layout);
            return;
        }
        let (base, size) = check_header(ptr, layout.size());
        System.dealloc(base, header_layout(size));
    }
    unsafe fn alloc_zeroed(&self, layout: Layout) -> *mut u8 {
        if layout.align() > HDR {
            let p = System.alloc_zeroed(layout);
            if p.is_null() && layout.size() > 0 {
                report_oom(layout.size());
            }
            heap_add(layout.size());
            return p;
        }
        let base = System.alloc_zeroed(header_layout(layout.size()));
        if base.is_null() {
            report_oom(layout.size());
        }
        heap_add(layout.size());
        write_header(base, layout.size())
    }
    unsafe fn realloc(&self, ptr: *mut u8, layout: Layout, new_size: usize) -> *mut u8 {
        if new_size >= layout.size() {
            heap_add(new_size - layout.size());
        } else {
            heap_sub(layout.size() - new_size);
        }
        if layout.align() > HDR {
            let p = System.realloc(ptr, layout, new_size);
            if p.is_null() && new_size > 0 {
                report_oom(new_size);
            }
            return p;
        }
        let (base, size) = check_header(ptr, layout.size());
        let nb = System.realloc(base, header_layout(size), new_size + HDR);
        if nb.is_null() {
            report_oom(new_size);
        }
        write_header(nb, new_size)
    }
}

fn report_layout_mismatch(recorded: usize, claimed: usize) -> ! {
    let mut b = FixedBuf { buf: [0u8; 160], n: 0 };
    b.put(b"\nLAYOUT case=");
    b.num(CUR_CASE.load(Ordering::Relaxed));
    b.put(b" recorded=");
    b.num(recorded as u64);
    b.put(b" claimed=");
    b.num(claimed as u64);
    b.put(b" label=");
    let lp = SLOT0_LABEL_PTR.load(Ordering::Relaxed);
    let ll = SLOT0_LABEL_LEN.load(Ordering::Relaxed);
    if lp != 0 && ll < 64 {
        // SAFETY: points into a &'static str
        let s = unsafe { std::slice::from_raw_parts(lp as *const u8, ll) };
        b.put(s);
    }
    b.put(b"\n");
    // SAFETY: raw write of a stack buffer; then abort
    unsafe {
        write(LOG_FD.load(Ordering::Relaxed), b.buf.as_ptr(), b.n);
        abort();
    }
}

struct FixedBuf {
    buf: [u8; 160],
    n: usize,
}

impl FixedBuf {
    fn put(&mut self, s: &[u8]) {
        for &b in s {
            if self.n < self.buf.len() {
                self.buf[self.n] = b;
                self.n += 1;
            }
        }
    }

    fn num(&mut self, mut v: u64) {
        let mut tmp = [0u8; 20];
        let mut i = 20;
        if v == 0 {
            i -= 1;
            tmp[i] = b'0';
        }
        while v > 0 {
            i -= 1;
            tmp[i] = b'0' + (v % 10) as u8;
            v /= 10;
        }
        self.put(&tmp[i..]);
    }
}

fn report_oom(size: usize) -> ! {
    // no allocation allowed here
    let mut b = FixedBuf { buf: [0u8; 160], n: 0 };
    b.put(b"\nOOM case=");
    b.num(CUR_CASE.load(Ordering::Relaxed));
    b.put(b" size=");
    b.num(size as u64);
    b.put(b" label=");
    let lp = SLOT0_LABEL_PTR.load(Ordering::Relaxed);
    let ll = SLOT0_LABEL_LEN.load(Ordering::Relaxed);
    if lp != 0 && ll < 64 {
        // SAFETY: points into a &'static str
        let s = unsafe { std::slice::from_raw_parts(lp as *const u8, ll) };
        b.put(s);
    }
    b.put(b"\n");
    // SAFETY: raw write of a stack buffer; then abort
    unsafe {
        write(LOG_FD.load(Ordering::Relaxed), b.buf.as_ptr(), b.n);
        abort();
    }
}

// ---------------------------------------------------------------------------------------------
// per-call CPU watchdog

const SLOTS: usize = 64;

struct Slot {
    active: AtomicU64,
    clock: AtomicI32,
    start_ns: AtomicI64,
    wall_start_ns: AtomicI64,
    label_ptr: AtomicUsize,
    label_len: AtomicUsize,
}

#[allow(clippy::declare_interior_mutable_const)]
const SLOT_INIT: Slot = Slot {
    active: AtomicU64::new(0),
    clock: AtomicI32::new(0),
    start_ns: AtomicI64::new(0),
    wall_start_ns: AtomicI64::new(0),
    label_ptr: AtomicUsize::new(0),
    label_len: AtomicUsize::new(0),
};

static SLOTS_ARR: [Slot; SLOTS] = [SLOT_INIT; SLOTS];
static NEXT_SLOT: AtomicUsize = AtomicUsize::new(0);
static SLOT0_LABEL_PTR: AtomicUsize = AtomicUsize::new(0);
static SLOT0_LABEL_LEN: AtomicUsize = AtomicUsize::new(0);
pub static CUR_CASE: AtomicU64 = AtomicU64::new(0);
static CALL_SEQ: AtomicU64 = AtomicU64::new(1);
pub static TOTAL_CALLS: AtomicU64 = AtomicU64::new(0);
static MAX_CALL_NS: AtomicI64 = AtomicI64::new(0);
static WATCHDOG_ON: AtomicBool = AtomicBool::new(false);
static BUDGET_NS: AtomicI64 = AtomicI64::new(30_000_000_000);

thread_local! {
    static MY_SLOT: (usize, i32) = {
        let idx = NEXT_SLOT.fetch_add(1, Ordering::Relaxed) % SLOTS;
        let mut clk: i32 = 0;
        // SAFETY: querying our own thread's cpu clock id
        unsafe { pthread_getcpuclockid(pthread_self(), &mut clk); }
        (idx, clk)
    };
}

/// Bracket one public API call of the library. The watchdog decides on the CPU time the
/// calling thread spent inside this bracket.
pub fn api<T>(label: &'static str, f: impl FnOnce() -> T) -> T {
    if !WATCHDOG_ON.load(Ordering::Relaxed) {
        TOTAL_CALLS.fetch_add(1, Ordering::Relaxed);
        return f();
    }
    let (idx, clk) = MY_SLOT.with(|s| *s);
    let slot = &SLOTS_ARR[idx];
    let start = clock_ns(clk);
    slot.clock.store(clk, Ordering::Relaxed);
    slot.start_ns.store(start, Ordering::Relaxed);
    slot.wall_start_ns.store(clock_ns(CLOCK_MONOTONIC), Ordering::Relaxed);
    slot.label_ptr.store(label.as_ptr() as usize, Ordering::Relaxed);
    slot.label_len.store(label.len(), Ordering::Relaxed);
    if idx == 0 {
        SLOT0_LABEL_PTR.store(label.as_ptr() as usize, Ordering::Relaxed);
        SLOT0_LABEL_LEN.store(label.len(), Ordering::Relaxed);
    }
    slot.active.store(CALL_SEQ.fetch_add(1, Ordering::Relaxed), Ordering::Release);
    struct Guard<'a>(&'a Slot, i32, i64, i64);
    impl Drop for Guard<'_> {
        fn drop(&mut self) {
            self.0.active.store(0, Ordering::Release);
            let d = clock_ns(self.1) - self.2;
            MAX_CALL_NS.fetch_max(d, Ordering::Relaxed);
            TOTAL_CALLS.fetch_add(1, Ordering::Relaxed);
            let grown = (PEAK.load(Ordering::Relaxed) - self.3).max(0);
            LAST_CALL_HEAP.with(|c| c.set(grown as u64));
            MAX_CALL_HEAP.fetch_max(grown, Ordering::Relaxed);
        }
    }
    // per-call heap high-water mark (meaningful for single-threaded workloads: the counters are process-wide)
    let live0 = LIVE.load(Ordering::Relaxed);
    PEAK.store(live0, Ordering::Relaxed);
    let _g = Guard(slot, clk, start, live0);
    f()
}

thread_local! {
    static LAST_CALL_HEAP: std::cell::Cell<u64> = const { std::cell::Cell::new(0) };
}
static MAX_CALL_HEAP: AtomicI64 = AtomicI64::new(0);

/// Heap growth (bytes above the level at entry) of the most recent `api()` bracket on this thread.
pub fn last_call_heap() -> u64 {
    LAST_CALL_HEAP.with(std::cell::Cell::get)
}

pub fn max_call_heap_mib() -> i64 {
    MAX_CALL_HEAP.load(Ordering::Relaxed) >> 20
}

pub fn max_call_ms() -> i64 {
    MAX_CALL_NS.load(Ordering::Relaxed) / 1_000_000
}

pub fn start_watchdog(budget_s: f64, log_path: Option<String>) {
    BUDGET_NS.store((budget_s * 1e9) as i64, Ordering::Relaxed);
    WATCHDOG_ON.store(true, Ordering::Relaxed);
    // make sure the main thread owns slot 0
    MY_SLOT.with(|_| {});
    std::thread::Builder::new()
        .name("watchdog".into())
        .spawn(move || loop {
            std::thread::sleep(std::time::Duration::from_millis(250));
            let budget = BUDGET_NS.load(Ordering::Relaxed);
            for slot in SLOTS_ARR.iter() {
                let seq = slot.active.load(Ordering::Acquire);
                if seq == 0 {
                    continue;
                }
                let clk = slot.clock.load(Ordering::Relaxed);
                let start = slot.start_ns.load(Ordering::Relaxed);
                let now = clock_ns(clk);
                if slot.active.load(Ordering::Acquire) != seq {
                    continue;
                }
                // a call that makes no progress at all (blocked on a lock): decided on wall-clock time, but only
                // when the thread used (almost) no CPU in the meantime, so a loaded machine cannot trigger it
                let wall = clock_ns(CLOCK_MONOTONIC) - slot.wall_start_ns.load(Ordering::Relaxed);
                let blocked = wall > 4 * budget && (now - start) * 50 < wall;
                if now - start > budget || blocked {
                    let lp = slot.label_ptr.load(Ordering::Relaxed);
                    let ll = slot.label_len.load(Ordering::Relaxed);
                    // SAFETY: label is a &'static str
                    let label = unsafe {
                        std::str::from_utf8_unchecked(std::slice::from_raw_parts(lp as *const u8, ll))
                    };
                    let case = CUR_CASE.load(Ordering::Relaxed);
                    let frame = gdb_innermost_frame();
                    let line = format!(
                        "\nHANG case={} label={} cpu_s={:.1} wall_s={:.1} kind={} frame={}\n",
                        case,
                        label,
                        (now - start) as f64 / 1e9,
                        wall as f64 / 1e9,
                        if blocked { "blocked" } else { "busy" },
                        frame
                    );
                    if let Some(p) = &log_path {
                        if let Ok(mut f) = std::fs::OpenOptions::new().append(true).open(p) {
                            let _ = f.write_all(line.as_bytes());
                        }
                    }
                    eprint!("{line}");
                    std::process::exit(98);
                }
            }
        })
        .expect("spawn watchdog");
}

/// Ask gdb for the stack of the busy thread and extract the innermost `rosu_pp::`/`rosu_map::`
/// frame (the *call-site signature* of a hang). Falls back to "unknown".
fn gdb_innermost_frame() -> String {
    // SAFETY: trivial libc call
    let pid = unsafe { getpid() };
    let out = std::process::Command::new("gdb")
        .args(["-batch", "-nx", "-p", &pid.to_string(), "-ex", "thread apply all bt 40"])
        .stdin(std::process::Stdio::null())
        .stderr(std::process::Stdio::null())
        .output();
    let Ok(out) = out else { return "unknown".into() };
    let text = String::from_utf8_lossy(&out.stdout);
    // pick the thread whose stack contains rpv::props (a monitor), innermost library frame
    let mut best = String::from("unknown");
    for block in text.split("\nThread ") {
        if !block.contains("rpv::") || block.contains("watchdog") && block.contains("gdb_innermost_frame") {
            continue;
        }
        for line in block.lines() {
            let l = line.trim();
            if !l.starts_with('#') {
                continue;
            }
            if let Some(pos) = l.find("rosu_pp::").or_else(|| l.find("rosu_map::")) {
                let rest = &l[pos..];
                let end = rest.find([' ', '(']).unwrap_or(rest.len());
                let mut name = rest[..end].to_string();
                // strip generic hashes
                if let Some(h) = name.rfind("::h") {
                    if name.len() - h == 19 {
                        name.truncate(h);
                    }
                }
                best = name;
                break;
            }
        }
        if best != "unknown" {
            break;
        }
    }
    best
}

// ---------------------------------------------------------------------------------------------
// panic capture

#[derive(Clone, Debug)]
pub struct PanicInfo {
    pub loc: String,
    pub msg: String,
}

impl PanicInfo {
    /// `true` if the panic originated in library code (rosu-pp / rosu-map / rosu-mods / std called
    /// from there), `false` if it is the harness' own assertion.
    pub fn in_library(&self) -> bool {
        !self.loc.contains("rpv/src")
    }

    pub fn sig(&self) -> String {
        format!("panic@{}", short_loc(&self.loc))
    }
}

pub fn short_loc(loc: &str) -> String {
    // "/repo/src/x.rs:12:5" -> "src/x.rs:12"; registry paths -> crate-version/src/..:line
    let mut s = loc.to_string();
    if let Some(p) = s.find("/repo/") {
        s = s[p + 6..].to_string();
    } else if let Some(p) = s.find("/registry/src/") {
        let rest = &s[p + 14..];
        if let Some(q) = rest.find('/') {
            s = rest[q + 1..].to_string();
        }
    } else if let Some(p) = s.find("/library/") {
        s = s[p + 1..].to_string();
    }
    // drop the column
    let parts: Vec<&str> = s.rsplitn(2, ':').collect();
    if parts.len() == 2 && parts[0].chars().all(|c| c.is_ascii_digit()) && parts[1].contains(':') {
        s = parts[1].to_string();
    }
    s
}

thread_local! {
    static LAST_PANIC: std::cell::RefCell<Option<PanicInfo>> = const { std::cell::RefCell::new(None) };
}

pub fn install_panic_hook() {
    panic::set_hook(Box::new(|info| {
        let loc = info
            .location()
            .map(|l| format!("{}:{}:{}", l.file(), l.line(), l.column()))
            .unwrap_or_else(|| "unknown".into());
        let msg = if let Some(s) = info.payload().downcast_ref::<&str>() {
            (*s).to_string()
        } else if let Some(s) = info.payload().downcast_ref::<String>() {
            s.clone()
        } else {
            "non-string panic".into()
        };
        LAST_PANIC.with(|p| *p.borrow_mut() = Some(PanicInfo { loc, msg }));
    }));
}

/// Run `f`, converting a panic into `Err(PanicInfo)`.
pub fn guard<T>(f: impl FnOnce() -> T) -> Result<T, PanicInfo> {
    match panic::catch_unwind(AssertUnwindSafe(f)) {
        Ok(v) => Ok(v),
        Err(_) => Err(LAST_PANIC.with(|p| p.borrow_mut().take()).unwrap_or(PanicInfo {
            loc: "unknown".into(),
            msg: "unknown".into(),
        })),
    }
}

/// `api` + `guard` in one.
pub fn call<T>(label: &'static str, f: impl FnOnce() -> T) -> Result<T, PanicInfo> {
    guard(|| api(label, f))
}

// ---------------------------------------------------------------------------------------------
// JSON helpers

pub fn jstr(s: &str) -> String {
    let mut o = String::with_capacity(s.len() + 2);
    o.push('"');
    for c in s.chars() {
        match c {
            '"' => o.push_str("\\\""),
            '\\' => o.push_str("\\\\"),
            '\n' => o.push_str("\\n"),
            '\r' => o.push_str("\\r"),
            '\t' => o.push_str("\\t"),
            c if (c as u32) < 0x20 => o.push_str(&format!("\\u{:04x}", c as u32)),
            c => o.push(c),
        }
    }
    o.push('"');
    o
}

pub fn hex(bytes: &[u8]) -> String {
    let mut s = String::with_capacity(bytes.len() * 2);
    for b in bytes {
        s.push_str(&format!("{b:02x}"));
    }
    s
}

// ---------------------------------------------------------------------------------------------
// context

#[derive(Copy, Clone, Debug, PartialEq, Eq)]
pub enum Tier {
    Quick,
    Thorough,
}

pub struct Ctx {
    pub prop: String,
    pub seed: u64,
    pub tier: Tier,
    pub verbose: bool,
    out: BufWriter<File>,
    pub counters: BTreeMap<String, u64>,
    digests: HashSet<u64>,
    digest_cap: usize,
    samples: Vec<String>,
    pub sample_cap: usize,
    pub n_viol: u64,
    viol_sigs: BTreeMap<String, u64>,
    pub case: u64,
    /// optional history log (cross-process / cross-build comparisons)
    pub hist: Option<BufWriter<File>>,
    /// free-form parameters (key=value from --param)
    pub params: BTreeMap<String, String>,
}

impl Ctx {
    pub fn new(prop: &str, seed: u64, tier: Tier, log: &str, hist: Option<&str>, verbose: bool) -> Self {
        let f = File::create(log).unwrap_or_else(|e| panic!("cannot create log {log}: {e}"));
        {
            use std::os::fd::AsRawFd;
            LOG_FD.store(f.as_raw_fd(), Ordering::Relaxed);
        }
        Self {
            prop: prop.to_string(),
            seed,
            tier,
            verbose,
            out: BufWriter::new(f),
            counters: BTreeMap::new(),
            digests: HashSet::new(),
            digest_cap: 60_000,
            samples: Vec::new(),
            sample_cap: 4,
            n_viol: 0,
            viol_sigs: BTreeMap::new(),
            case: 0,
            hist: hist.map(|h| BufWriter::new(File::create(h).expect("hist file"))),
            params: BTreeMap::new(),
        }
    }

    pub fn param_u64(&self, k: &str, default: u64) -> u64 {
        self.params.get(k).and_then(|v| v.parse().ok()).unwrap_or(default)
    }

    pub fn thorough(&self) -> bool {
        self.tier == Tier::Thorough
    }

    pub fn begin(&mut self, idx: u64) {
        self.case = idx;
        CUR_CASE.store(idx, Ordering::Relaxed);
        let _ = writeln!(self.out, "B {idx}");
        let _ = self.out.flush();
    }

    pub fn end(&mut self, idx: u64, status: &str) {
        let _ = writeln!(self.out, "E {idx} {status}");
    }

    pub fn count(&mut self, key: &str) {
        self.count_n(key, 1);
    }

    pub fn count_n(&mut self, key: &str, n: u64) {
        if let Some(v) = self.counters.get_mut(key) {
            *v += n;
        } else {
            self.counters.insert(key.to_string(), n);
        }
    }

    pub fn max(&mut self, key: &str, v: u64) {
        let e = self.counters.entry(key.to_string()).or_insert(0);
        if v > *e {
            *e = v;
        }
    }

    /// One oracle evaluation.
    pub fn eval(&mut self) {
        self.count("evaluations");
    }

    pub fn evals(&mut self, n: u64) {
        self.count_n("evaluations", n);
    }

    /// Record a non-trivial case by the digest of its input.
    pub fn nontrivial(&mut self, digest: u64) {
        self.count("nontrivial_cases");
        if self.digests.len() < self.digest_cap {
            self.digests.insert(digest);
        }
    }

    pub fn sample(&mut self, s: impl FnOnce() -> String) {
        if self.samples.len() < self.sample_cap {
            let v = s();
            self.samples.push(v);
        }
    }

    pub fn hist_line(&mut self, key: &str, digest: u64) {
        if let Some(h) = self.hist.as_mut() {
            let _ = writeln!(h, "{key}\t{digest:016x}");
        }
    }

    /// Record a violation. `sig` is the narrow signature, `detail` a human readable witness,
    /// `input` the materialised input (map text etc.).
    pub fn violation(&mut self, sig: &str, detail: &str, input: Option<&str>) {
        self.n_viol += 1;
        let c = self.viol_sigs.entry(sig.to_string()).or_insert(0);
        *c += 1;
        // keep the log bounded: full record for the first 3 of each signature
        if *c <= 3 {
            let inp = input.map(|s| {
                if s.len() > 200_000 {
                    format!("{}...[truncated]", &s[..200_000])
                } else {
                    s.to_string()
                }
            });
            let _ = writeln!(
                self.out,
                "V {{\"sig\":{},\"case\":{},\"seed\":{},\"detail\":{},\"input\":{}}}",
                jstr(sig),
                self.case,
                self.seed,
                jstr(&truncate(detail, 6000)),
                inp.as_deref().map_or("null".to_string(), jstr)
            );
            let _ = self.out.flush();
        }
        if self.verbose {
            eprintln!("VIOLATION sig={sig} case={} detail={}", self.case, truncate(detail, 3000));
        }
    }

    pub fn harness_error(&mut self, what: &str) {
        self.count("harness_errors");
        let _ = writeln!(self.out, "X {}", jstr(what));
        let _ = self.out.flush();
        if self.verbose {
            eprintln!("HARNESS-ERROR case={} {what}", self.case);
        }
    }

    pub fn finish(&mut self) {
        self.counters.insert("api_calls".into(), TOTAL_CALLS.load(Ordering::Relaxed));
        self.counters.insert("max_call_ms".into(), max_call_ms() as u64);
        self.counters.insert("max_call_heap_mib".into(), max_call_heap_mib() as u64);
        let mut s = String::from("S {\"counters\":{");
        let mut first = true;
        for (k, v) in &self.counters {
            if !first {
                s.push(',');
            }
            first = false;
            s.push_str(&format!("{}:{}", jstr(k), v));
        }
        s.push_str("},\"viol_sigs\":{");
        first = true;
        for (k, v) in &self.viol_sigs {
            if !first {
                s.push(',');
            }
            first = false;
            s.push_str(&format!("{}:{}", jstr(k), v));
        }
        s.push_str("},\"samples\":[");
        first = true;
        for v in &self.samples {
            if !first {
                s.push(',');
            }
            first = false;
            s.push_str(&jstr(&truncate(v, 1500)));
        }
        s.push_str("],\"digests\":[");
        first = true;
        for d in &self.digests {
            if !first {
                s.push(',');
            }
            first = false;
            s.push_str(&format!("\"{d:x}\""));
        }
        s.push_str("]}");
        let _ = writeln!(self.out, "{s}");
        let _ = writeln!(self.out, "DONE");
        let _ = self.out.flush();
        if let Some(h) = self.hist.as_mut() {
            let _ = h.flush();
        }
    }
}

pub fn truncate(s: &str, n: usize) -> String {
    if s.len() <= n {
        s.to_string()
    } else {
        let mut end = n;
        while !s.is_char_boundary(end) {
            end -= 1;
        }
        format!("{}...[+{} bytes]", &s[..end], s.len() - end)
    }
}

/// Run one case with panic isolation. A panic that escapes the monitor is classified by its
/// location: library → violation `panic@loc`, harness → harness error (inconclusive).
pub fn run_case(ctx: &mut Ctx, idx: u64, f: impl FnOnce(&mut Ctx)) {
    ctx.begin(idx);
    let before = ctx.n_viol;
    let r = guard(|| f(ctx));
    match r {
        Ok(()) => {
            let st = if ctx.n_viol > before { "viol" } else { "ok" };
            ctx.end(idx, st);
        }
        Err(p) => {
            if p.in_library() {
                let sig = format!("{}/escaped/{}", ctx.prop, p.sig());
                ctx.violation(&sig, &format!("library panic escaped the monitor: {} at {}", p.msg, p.loc), None);
                ctx.end(idx, "viol");
            } else {
                ctx.harness_error(&format!("harness panic: {} at {}", p.msg, p.loc));
                ctx.end(idx, "herr");
            }
        }
    }
}
