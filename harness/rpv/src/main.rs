//! rpv — runtime-monitoring harness for rosu-pp (see /verif/DESIGN.md).

//!
//! `rpv <property> --seed S --start A --count N --tier quick|thorough --log <file>`
//! runs cases `A..A+N` of the property's workload through its monitor and writes an event log:
//! `B <case>` / `E <case> <status>` / `V {violation json}` / `X "harness error"` / `S {stats}` / `DONE`.

#![allow(dead_code, clippy::too_many_arguments, clippy::needless_pass_by_value)]

mod api;
mod gen;
mod maps;
mod osu;
mod props;
mod rng;
mod runner;
mod sets;

use runner::{Ctx, Tier};

// Under Miri no allocator is installed: Miri checks the layout of every deallocation itself, but only when it owns the
// global allocator (a wrapper ends in `free()`, which ignores the size).
#[cfg(not(miri))]
#[global_allocator]
static ALLOC: runner::ReportingAlloc = runner::ReportingAlloc;

fn usage() -> ! {
    eprintln!("usage: rpv <property> --seed S --start A --count N --tier quick|thorough --log FILE [--hist FILE] [--verbose] [--budget SECS] [--mem GIB] [--param k=v]...");
    std::process::exit(3);
}

fn main() {
    let args: Vec<String> = std::env::args().collect();
    if args.len() < 2 {
        usage();
    }
    let prop = args[1].clone();
    let mut seed = 1u64;
    let mut start = 0u64;
    let mut count = 1u64;
    let mut tier = Tier::Quick;
    let mut log = String::from("/dev/stdout");
    let mut hist: Option<String> = None;
    let mut verbose = false;
    let mut count_only = false;
    let mut budget = 30.0f64;
    let mut mem_gib = 4.0f64;
    let mut params: Vec<(String, String)> = Vec::new();
    let mut i = 2;
    while i < args.len() {
        let a = args[i].as_str();
        let mut val = || -> String {
            i += 1;
            args.get(i).cloned().unwrap_or_else(|| usage())
        };
        match a {
            "--seed" => seed = val().parse().unwrap_or_else(|_| usage()),
            "--start" => start = val().parse().unwrap_or_else(|_| usage()),
            "--count" => count = val().parse().unwrap_or_else(|_| usage()),
            "--tier" => {
                tier = match val().as_str() {
                    "quick" => Tier::Quick,
                    "thorough" => Tier::Thorough,
                    _ => usage(),
                }
            }
            "--log" => log = val(),
            "--hist" => hist = Some(val()),
            "--verbose" => verbose = true,
            "--count-cases" => count_only = true,
            "--budget" => budget = val().parse().unwrap_or_else(|_| usage()),
            "--mem" => mem_gib = val().parse().unwrap_or_else(|_| usage()),
            "--param" => {
                let v = val();
                if let Some((k, x)) = v.split_once('=') {
                    params.push((k.to_string(), x.to_string()));
                }
            }
            _ => usage(),
        }
        i += 1;
    }

    if count_only {
        match props::case_count(&prop, tier) {
            Some(n) => println!("COUNT {n}"),
            None => println!("COUNT none"),
        }
        return;
    }
    runner::install_panic_hook();
    if mem_gib > 0.0 {
        runner::set_memory_limit((mem_gib * 1024.0 * 1024.0 * 1024.0) as u64);
    }
    let mut ctx = Ctx::new(&prop, seed, tier, &log, hist.as_deref(), verbose);
    for (k, v) in params {
        ctx.params.insert(k, v);
    }
    if budget > 0.0 {
        runner::start_watchdog(budget, if log == "/dev/stdout" { None } else { Some(log.clone()) });
    }

    let Some(case_fn) = props::lookup(&prop) else {
        eprintln!("unknown property {prop}");
        std::process::exit(3);
    };

    // `--param reverse=1`: the same cases, last one first - a process whose history differs from that of its siblings
    // (cross-process monitors: state that the FIRST calculation of a process leaves behind for all later ones)
    let end = start.saturating_add(count);
    if ctx.param_u64("reverse", 0) == 1 {
        for idx in (start..end).rev() {
            runner::run_case(&mut ctx, idx, |c| case_fn(c, idx));
        }
    } else {
        for idx in start..end {
            runner::run_case(&mut ctx, idx, |c| case_fn(c, idx));
        }
    }
    ctx.finish();
}
