//! Workload mix shared by the monitors: where map texts come from.

use rosu_pp::{model::mode::GameMode, Beatmap};

use crate::{
    maps::{self, Domain},
    osu::{self, GenOpts, Profile, ALL_PROFILES, REALISTIC_PROFILES},
    rng::Rng,
};

#[derive(Clone, Debug)]
pub struct MapCase {
    pub text: String,
    pub tag: String,
}

#[derive(Clone, Debug)]
pub struct Mix {
    pub realistic: bool,
    pub max_objects: usize,
    pub profiles: Option<Vec<Profile>>,
    pub fixtures: bool,
    pub mode: Option<u8>,
}

impl Default for Mix {
    fn default() -> Self {
        Self {
            realistic: true,
            max_objects: 120,
            profiles: None,
            fixtures: true,
            mode: None,
        }
    }
}

pub fn gen_map(rng: &mut Rng, mix: &Mix) -> MapCase {
    let r = rng.below(100);
    if mix.fixtures && r < 12 {
        // G-real: window of a fixture
        let fi = rng.usize_below(4);
        let text = osu::fixture_window(rng, &osu::load_fixture(fi), mix.max_objects);
        return MapCase {
            text,
            tag: format!("real:{}", osu::FIXTURES[fi].0),
        };
    }
    if mix.fixtures && r < 24 {
        // G-mut
        let fi = rng.usize_below(4);
        let base = osu::fixture_window(rng, &osu::load_fixture(fi), mix.max_objects);
        let n_mut = 1 + rng.usize_below(4);
        let text = osu::mutate_text(rng, &base, n_mut, mix.realistic);
        return MapCase {
            text,
            tag: format!("mut:{}", osu::FIXTURES[fi].0),
        };
    }
    let profiles: &[Profile] = match &mix.profiles {
        Some(p) => p,
        None => {
            if mix.realistic {
                REALISTIC_PROFILES
            } else {
                ALL_PROFILES
            }
        }
    };
    let profile = *rng.pick(profiles);
    let f = osu::generate(
        rng,
        &GenOpts {
            profile,
            mode: mix.mode,
            max_objects: mix.max_objects,
        },
    );
    MapCase {
        text: f.render(),
        tag: format!("gram:{}", profile.name()),
    }
}

/// Generate until a decodable, in-domain map is found (bounded retries).
pub fn gen_domain_map(rng: &mut Rng, mix: &Mix, dom: Domain) -> Option<(MapCase, Beatmap)> {
    // 1.5 % of the maps of every monitor: a mid-size map made of phases (see `osu::phased_file`)
    if rng.below(1000) < 15 {
        if let Some(r) = gen_phased(rng, mix.mode) {
            if maps::out_of_domain(&r.1, dom, 400).is_none() {
                return Some(r);
            }
        }
    }
    for _ in 0..20 {
        let mc = gen_map(rng, mix);
        if let Some(map) = maps::decode(&mc.text) {
            if maps::out_of_domain(&map, dom, mix.max_objects.max(400)).is_none() {
                return Some((mc, map));
            }
        }
    }
    None
}

pub fn gen_phased(rng: &mut Rng, mode: Option<u8>) -> Option<(MapCase, Beatmap)> {
    let file_mode = match mode {
        Some(m) => m,
        None => *rng.pick(&[0u8, 0, 0, 1, 1, 2, 3]),
    };
    let n = 130 + rng.usize_below(270);
    let text = osu::phased_file(rng, file_mode, n).render();
    maps::decode(&text).map(|m| (MapCase { text, tag: "phased".into() }, m))
}

/// `gen_domain_map` plus two rare classes for monitors whose property quantifies over *all* maps: `long_pm` per mille of
/// the cases are long plain maps (1 500 - 6 000 objects), `susp_pm` per mille are cheap maps that `check_suspicion()`
/// rejects (these bypass the domain filter on purpose).
pub fn gen_domain_map_ext(rng: &mut Rng, mix: &Mix, dom: Domain, long_pm: u64, susp_pm: u64) -> Option<(MapCase, Beatmap)> {
    let r = rng.below(1000);
    if r < long_pm + susp_pm {
        let file_mode = match mix.mode {
            Some(m) => m,
            None => *rng.pick(&[0u8, 0, 0, 1, 2, 3]),
        };
        let (text, tag) = if r < long_pm {
            (osu::long_file(rng, file_mode).render(), "long")
        } else {
            (osu::suspicious_cheap_file(rng, file_mode).render(), "suspicious-cheap")
        };
        return maps::decode(&text).map(|m| (MapCase { text, tag: tag.into() }, m));
    }
    gen_domain_map(rng, mix, dom)
}

pub fn pick_mode(rng: &mut Rng, map: &Beatmap) -> GameMode {
    let r = maps::reachable_modes(map);
    if r.len() > 1 && rng.chance(0.3) {
        return map.mode;
    }
    *rng.pick(&r)
}
