//! `.osu` text model, renderer, grammar-based generator (G-gram), fixture mutation
//! (G-mut) and byte-level noise (G-bytes).

use crate::rng::Rng;

#[derive(Clone, Debug)]
pub enum ObjKind {
    Circle,
    Slider {
        curve: String,
        slides: String,
        length: Option<String>,
        edge_sounds: Option<String>,
        edge_sets: Option<String>,
    },
    Spinner {
        end: String,
    },
    Hold {
        end: String,
    },
}

#[derive(Clone, Debug)]
pub struct ObjLine {
    pub x: String,
    pub y: String,
    pub time: String,
    pub extra_type: u32,
    pub sound: u32,
    pub kind: ObjKind,
    pub sample: Option<String>,
}

impl ObjLine {
    pub fn render(&self) -> String {
        let ty = self.extra_type
            | match self.kind {
                ObjKind::Circle => 1,
                ObjKind::Slider { .. } => 2,
                ObjKind::Spinner { .. } => 8,
                ObjKind::Hold { .. } => 128,
            };
        let mut s = format!("{},{},{},{},{}", self.x, self.y, self.time, ty, self.sound);
        match &self.kind {
            ObjKind::Circle => {
                if let Some(sm) = &self.sample {
                    s.push(',');
                    s.push_str(sm);
                }
            }
            ObjKind::Slider {
                curve,
                slides,
                length,
                edge_sounds,
                edge_sets,
            } => {
                s.push(',');
                s.push_str(curve);
                s.push(',');
                s.push_str(slides);
                if let Some(l) = length {
                    s.push(',');
                    s.push_str(l);
                    if let Some(es) = edge_sounds {
                        s.push(',');
                        s.push_str(es);
                        if let Some(eset) = edge_sets {
                            s.push(',');
                            s.push_str(eset);
                            if let Some(sm) = &self.sample {
                                s.push(',');
                                s.push_str(sm);
                            }
                        }
                    }
                }
            }
            ObjKind::Spinner { end } => {
                s.push(',');
                s.push_str(end);
                if let Some(sm) = &self.sample {
                    s.push(',');
                    s.push_str(sm);
                }
            }
            ObjKind::Hold { end } => {
                s.push(',');
                s.push_str(end);
                s.push(':');
                s.push_str(self.sample.as_deref().unwrap_or("0:0:0:0:"));
            }
        }
        s
    }
}

#[derive(Clone, Debug)]
pub struct TimingLine {
    pub time: String,
    pub beat_len: String,
    pub meter: String,
    pub uninherited: Option<bool>,
    pub effects: Option<u32>,
}

impl TimingLine {
    pub fn render(&self) -> String {
        let mut s = format!("{},{},{},2,0,60", self.time, self.beat_len, self.meter);
        if let Some(u) = self.uninherited {
            s.push_str(if u { ",1" } else { ",0" });
            if let Some(e) = self.effects {
                s.push_str(&format!(",{e}"));
            }
        }
        s
    }
}

#[derive(Clone, Debug, Default)]
pub struct OsuFile {
    pub version: Option<i32>,
    pub mode: u8,
    pub stack_leniency: Option<String>,
    pub hp: Option<String>,
    pub cs: Option<String>,
    pub od: Option<String>,
    pub ar: Option<String>,
    pub sm: Option<String>,
    pub tr: Option<String>,
    pub breaks: Vec<(String, String)>,
    pub timing: Vec<TimingLine>,
    pub objects: Vec<ObjLine>,
    pub crlf: bool,
}

impl OsuFile {
    pub fn render(&self) -> String {
        let nl = if self.crlf { "\r\n" } else { "\n" };
        let mut s = String::with_capacity(256 + 48 * self.objects.len());
        if let Some(v) = self.version {
            s.push_str(&format!("osu file format v{v}{nl}{nl}"));
        }
        s.push_str(&format!("[General]{nl}"));
        if let Some(sl) = &self.stack_leniency {
            s.push_str(&format!("StackLeniency: {sl}{nl}"));
        }
        s.push_str(&format!("Mode: {}{nl}{nl}", self.mode));
        s.push_str(&format!("[Difficulty]{nl}"));
        if let Some(v) = &self.hp {
            s.push_str(&format!("HPDrainRate:{v}{nl}"));
        }
        if let Some(v) = &self.cs {
            s.push_str(&format!("CircleSize:{v}{nl}"));
        }
        if let Some(v) = &self.od {
            s.push_str(&format!("OverallDifficulty:{v}{nl}"));
        }
        if let Some(v) = &self.ar {
            s.push_str(&format!("ApproachRate:{v}{nl}"));
        }
        if let Some(v) = &self.sm {
            s.push_str(&format!("SliderMultiplier:{v}{nl}"));
        }
        if let Some(v) = &self.tr {
            s.push_str(&format!("SliderTickRate:{v}{nl}"));
        }
        s.push_str(nl);
        if !self.breaks.is_empty() {
            s.push_str(&format!("[Events]{nl}"));
            for (a, b) in &self.breaks {
                s.push_str(&format!("2,{a},{b}{nl}"));
            }
            s.push_str(nl);
        }
        s.push_str(&format!("[TimingPoints]{nl}"));
        for t in &self.timing {
            s.push_str(&t.render());
            s.push_str(nl);
        }
        s.push_str(nl);
        s.push_str(&format!("[HitObjects]{nl}"));
        for o in &self.objects {
            s.push_str(&o.render());
            s.push_str(nl);
        }
        s
    }
}

pub fn fnum(v: f64) -> String {
    if v.fract() == 0.0 && v.abs() < 1e15 {
        format!("{}", v as i64)
    } else {
        format!("{v}")
    }
}

#[derive(Copy, Clone, Debug, PartialEq, Eq)]
pub enum Profile {
    Editor,
    Tiny,
    NonHitFirst,
    Ties,
    Gaps,
    Dense,
    SliderZoo,
    Holds,
    Limits,
    ManiaNative,
    Spinners,
    Stacked,
    /// objects late in a very long map (beyond 2^24 ms) with tiny durations: float-precision corner
    Late,
}

pub const ALL_PROFILES: &[Profile] = &[
    Profile::Editor,
    Profile::Tiny,
    Profile::NonHitFirst,
    Profile::Ties,
    Profile::Gaps,
    Profile::Dense,
    Profile::SliderZoo,
    Profile::Holds,
    Profile::Limits,
    Profile::ManiaNative,
    Profile::Spinners,
    Profile::Stacked,
    Profile::Late,
];

/// Profiles that only produce what the editor can produce (times in [0, 3h], coordinates
/// near the playfield, sane timing).
pub const REALISTIC_PROFILES: &[Profile] = &[
    Profile::Editor,
    Profile::Tiny,
    Profile::NonHitFirst,
    Profile::Dense,
    Profile::Holds,
    Profile::ManiaNative,
    Profile::Spinners,
    Profile::Stacked,
];

impl Profile {
    pub fn name(self) -> &'static str {
        match self {
            Profile::Editor => "editor",
            Profile::Tiny => "tiny",
            Profile::NonHitFirst => "nonhit-first",
            Profile::Ties => "ties",
            Profile::Gaps => "gaps",
            Profile::Dense => "dense",
            Profile::SliderZoo => "slider-zoo",
            Profile::Holds => "holds",
            Profile::Limits => "limits",
            Profile::ManiaNative => "mania-native",
            Profile::Spinners => "spinners",
            Profile::Stacked => "stacked",
            Profile::Late => "late",
        }
    }
}

pub struct GenOpts {
    pub profile: Profile,
    /// 0..=3, or None for "pick"
    pub mode: Option<u8>,
    pub max_objects: usize,
}

const HOSTILE_NUMS: &[&str] = &[
    "NaN",
    "nan",
    "inf",
    "-inf",
    "infinity",
    "-0",
    "-0.0",
    "0",
    "1e-320",
    "1e308",
    "-1e308",
    "2147483647",
    "2147483648",
    "-2147483647",
    "-2147483648",
    "131072",
    "131073",
    "-131072",
    "-131073",
    "9000",
    "9001",
    "8999",
    "4294967296",
    "1e10",
    "0x10",
    "",
    " 12 ",
    "+5",
    "1_000",
    "12abc",
    "3.4028235e38",
    "1.7976931348623157e308",
    "5e-324",
    "0.1",
    "33554432",
    "33554433",
    "1073741824",
    "16777217",
    // just outside the documented clamps of the difficulty settings and slider fields
    "11",
    "10.5",
    "-3.5",
    "-1",
    "25",
    "0.3",
    "3.7",
    "8.5",
    "0.45",
];

fn curve(rng: &mut Rng, x: i64, y: i64, zoo: bool) -> String {
    // degenerate but legal (found in ranked maps): the only anchor sits on the slider head, the path has length zero
    if rng.chance(0.03) {
        return format!("{}|{x}:{y}", *rng.pick(&["L", "B", "P"]));
    }
    let types: &[&str] = if zoo {
        &["L", "B", "P", "C", "B", "P", "B3", "Bx", "X", ""]
    } else {
        &["L", "B", "P", "C", "B", "L"]
    };
    let t = *rng.pick(types);
    let n = if t == "P" && !rng.chance(0.15) {
        2
    } else if zoo {
        rng.range(0, 9)
    } else {
        rng.range(1, 4)
    };
    let mut s = String::from(t);
    let (mut cx, mut cy) = (x, y);
    let spread = if zoo { 400 } else { 140 };
    for i in 0..n {
        // occasional segment switch (zoo)
        if zoo && i > 0 && rng.chance(0.15) {
            s.push('|');
            s.push_str(*rng.pick(&["L", "B", "P", "C"]));
        }
        if zoo && rng.chance(0.2) {
            // duplicate point => red anchor / segment end
        } else if zoo && rng.chance(0.1) {
            // collinear continuation
            cx += 30;
            cy += 0;
        } else {
            cx += rng.range(-spread, spread);
            cy += rng.range(-spread, spread);
        }
        s.push_str(&format!("|{cx}:{cy}"));
    }
    if zoo && rng.chance(0.05) {
        s.push_str("|12");
    }
    if zoo && rng.chance(0.05) {
        s.push_str("|:");
    }
    s
}

fn sound(rng: &mut Rng) -> u32 {
    *rng.pick(&[0u32, 0, 0, 2, 4, 8, 2, 8, 6, 10, 12, 14, 1, 3, 5, 9, 15])
}

fn sample(rng: &mut Rng) -> Option<String> {
    match rng.below(8) {
        0 => None,
        1 => Some("0:0:0:0:".into()),
        2 => Some("2:0:0:0:".into()),
        3 => Some("1:2:0:70:".into()),
        4 => Some("0:0:0:0:custom.wav".into()),
        5 => Some("0:0".into()),
        6 => Some("".into()),
        _ => Some("0:0:0:0:".into()),
    }
}

fn edge_sounds(rng: &mut Rng, spans: i64) -> (Option<String>, Option<String>) {
    if rng.chance(0.5) {
        return (None, None);
    }
    let nodes = (spans + 1 + rng.range(-2, 2)).clamp(0, 120);
    let es = (0..nodes)
        .map(|_| sound(rng).to_string())
        .collect::<Vec<_>>()
        .join("|");
    let eset = if rng.chance(0.7) {
        Some(
            (0..nodes)
                .map(|_| "0:0".to_string())
                .collect::<Vec<_>>()
                .join("|"),
        )
    } else {
        None
    };
    (Some(es), eset)
}

pub fn generate(rng: &mut Rng, opts: &GenOpts) -> OsuFile {
    let p = opts.profile;
    let mode = opts.mode.unwrap_or_else(|| match p {
        Profile::ManiaNative | Profile::Holds => 3,
        _ => *rng.pick(&[0u8, 0, 0, 0, 1, 2, 3]),
    });
    let mut f = OsuFile {
        version: Some(*rng.pick(&[14, 14, 14, 12, 10, 9, 8, 7, 6, 5, 4, 3, 128])),
        mode,
        ..OsuFile::default()
    };
    if rng.chance(0.05) {
        f.version = None;
    }
    f.crlf = rng.chance(0.3);
    let diffval = |rng: &mut Rng| -> String {
        if rng.chance(0.7) {
            fnum((rng.range(0, 100) as f64) / 10.0)
        } else {
            fnum(rng.range(0, 10) as f64)
        }
    };
    f.hp = Some(diffval(rng));
    f.cs = Some(if mode == 3 {
        fnum(*rng.pick(&[4.0, 4.0, 7.0, 5.0, 6.0, 1.0, 2.0, 3.0, 8.0, 9.0, 10.0, 18.0, 4.5]))
    } else {
        diffval(rng)
    });
    f.od = Some(diffval(rng));
    f.ar = if rng.chance(0.85) {
        Some(diffval(rng))
    } else {
        None
    };
    f.sm = Some(fnum(*rng.pick(&[1.4, 1.4, 1.7, 2.0, 0.4, 3.6, 1.0, 2.8, 0.75])));
    f.tr = Some(fnum(*rng.pick(&[1.0, 1.0, 2.0, 4.0, 0.5, 8.0, 3.0, 1.5])));
    f.stack_leniency = if rng.chance(0.8) {
        Some(fnum(*rng.pick(&[0.7, 0.5, 0.2, 1.0, 0.0, 0.3])))
    } else {
        None
    };

    // timing
    let base_bl: f64 = match p {
        Profile::SliderZoo | Profile::Limits => {
            *rng.pick(&[6.0, 60.0, 300.0, 352.941176470588, 1000.0, 60000.0, 5.0, 70000.0, 0.0])
        }
        Profile::Dense => *rng.pick(&[150.0, 200.0, 250.0, 100.0]),
        _ => *rng.pick(&[
            300.0,
            352.941176470588,
            500.0,
            400.0,
            250.0,
            600.0,
            333.333333333333,
            1000.0,
            461.538461538462,
        ]),
    };
    let t0: f64 = match p {
        Profile::Gaps if rng.chance(0.3) => -(rng.range(1, 5000) as f64),
        Profile::Limits => *rng.pick(&[0.0, -1000.0, 1e6, 3.3554432e7, 1.0e9, 2.0e9, -2.0e9]),
        Profile::Late => *rng.pick(&[
            16_777_216.0, 16_777_300.0, 33_554_432.0, 3.0e7, 5.0e7, 8.0e7, 67_108_864.0, 2.0e7,
            // just below a power of two so that objects (and spinners) cross the boundary where the f32 ulp doubles
            16_777_215.0, 16_776_900.0, 16_775_000.0, 33_554_000.0, 33_553_431.0, 67_108_000.0, 8_388_000.0,
        ]),
        Profile::Ties if rng.chance(0.3) => 0.0,
        _ => rng.range(0, 3000) as f64,
    };
    f.timing.push(TimingLine {
        time: fnum(if rng.chance(0.8) { t0 } else { t0 - 200.0 }),
        beat_len: fnum(base_bl),
        meter: "4".into(),
        uninherited: Some(true),
        effects: Some(if rng.chance(0.2) { 1 } else { 0 }),
    });

    let max_n = opts.max_objects.max(1);
    let n: usize = match p {
        Profile::Tiny => rng.usize_below(4),
        Profile::NonHitFirst => 2 + rng.usize_below(max_n.min(40)),
        Profile::Dense => 30 + rng.usize_below(max_n.min(260)),
        Profile::Limits | Profile::SliderZoo => 1 + rng.usize_below(max_n.min(30)),
        _ => {
            if rng.chance(0.5) {
                1 + rng.usize_below(max_n.min(30))
            } else {
                1 + rng.usize_below(max_n)
            }
        }
    };

    let keys: i64 = if mode == 3 {
        f.cs.as_ref()
            .and_then(|s| s.parse::<f64>().ok())
            .map_or(4, |v| (v.round() as i64).clamp(1, 18))
    } else {
        4
    };

    let mut t = t0;
    let ms_jitter = rng.chance(0.08);
    let mut bl = base_bl.clamp(6.0, 60000.0);
    let (mut x, mut y) = (256i64, 192i64);
    let divisors: &[f64] = match p {
        Profile::Dense => &[0.25, 0.25, 0.125, 0.5, 0.25],
        Profile::Ties => &[0.0, 0.0, 0.5, 1.0, 0.0, 0.25],
        _ => &[0.25, 0.5, 0.5, 1.0, 1.0, 2.0, 0.75, 1.5, 4.0, 0.0],
    };

    for i in 0..n {
        // occasionally add timing / SV changes
        if rng.chance(match p {
            Profile::Ties => 0.25,
            Profile::SliderZoo => 0.3,
            _ => 0.06,
        }) {
            let uninherited = rng.chance(0.3);
            let blv = if uninherited {
                let nb = match p {
                    Profile::Ties => *rng.pick(&[300.0, 400.0, 500.0, 600.0]),
                    Profile::SliderZoo | Profile::Limits => {
                        *rng.pick(&[6.0, 30.0, 300.0, 2000.0, 60000.0, 0.5, 1e6])
                    }
                    _ => *rng.pick(&[250.0, 300.0, 375.0, 500.0, 750.0, 428.571428571429]),
                };
                bl = f64::clamp(nb, 6.0, 60000.0);
                nb
            } else {
                match p {
                    Profile::SliderZoo | Profile::Limits => {
                        *rng.pick(&[-100.0, -1000.0, -10.0, -50.0, -200.0, -1.0, -10000.0, -133.333333333333])
                    }
                    _ => *rng.pick(&[-100.0, -50.0, -200.0, -133.333333333333, -66.6666666666667, -80.0, -125.0]),
                }
            };
            let tt = match p {
                Profile::Ties if rng.chance(0.5) => t0,
                _ => t + *rng.pick(&[0.0, 0.0, -1.0, 1.0, -bl]),
            };
            f.timing.push(TimingLine {
                time: fnum(tt),
                beat_len: fnum(blv),
                meter: "4".into(),
                uninherited: if rng.chance(0.95) {
                    Some(uninherited)
                } else {
                    None
                },
                effects: Some(*rng.pick(&[0, 0, 1, 8, 9])),
            });
        }

        // choose kind
        let kind_idx = match (p, mode) {
            (Profile::NonHitFirst, _) if i < 1 + rng.usize_below(3) => {
                if mode == 3 {
                    3
                } else {
                    1 + rng.usize_below(2)
                }
            }
            (Profile::Spinners, _) => rng.weighted(&[2, 1, 8, 0]),
            (Profile::Late, 3) => rng.weighted(&[3, 1, 1, 5]),
            (Profile::Late, _) => rng.weighted(&[3, 3, 5, 0]),
            (Profile::Holds, _) | (Profile::ManiaNative, _) => rng.weighted(&[5, 0, 0, 5]),
            (_, 3) => rng.weighted(&[6, 1, 0, 4]),
            (Profile::SliderZoo, _) => rng.weighted(&[1, 8, 1, 0]),
            (Profile::Stacked, _) => rng.weighted(&[8, 2, 0, 0]),
            (Profile::Dense, _) => rng.weighted(&[8, 2, 0, 0]),
            (_, 1) => rng.weighted(&[10, 2, 1, 0]),
            _ => rng.weighted(&[6, 4, 1, 0]),
        };

        // position
        match p {
            Profile::Stacked => {
                if rng.chance(0.15) {
                    x = rng.range(0, 512);
                    y = rng.range(0, 384);
                }
            }
            Profile::Limits => {
                x = *rng.pick(&[0, 512, -131072, 131072, 10001, -10001, 256, 99999]);
                y = *rng.pick(&[0, 384, -131072, 131072, 10001, 192, -500]);
            }
            _ => {
                if mode == 3 {
                    let col = rng.range(0, keys - 1);
                    x = match p {
                        Profile::ManiaNative if rng.chance(0.2) => *rng.pick(&[0, 511, 512, 513, 600, -1]),
                        _ => (512 * col + 256) / keys,
                    };
                    y = 192;
                } else if rng.chance(0.9) {
                    x = (x + rng.range(-150, 150)).clamp(0, 512);
                    y = (y + rng.range(-120, 120)).clamp(0, 384);
                } else {
                    x = rng.range(-50, 600);
                    y = rng.range(-50, 450);
                }
            }
        }

        let snd = sound(rng);
        let smp = sample(rng);
        let extra_type = if rng.chance(0.2) { 4 } else { 0 } | if rng.chance(0.05) { 16 } else { 0 };
        let time_s = match p {
            Profile::Limits if rng.chance(0.2) => (*rng.pick(HOSTILE_NUMS)).to_string(),
            Profile::Ties if rng.chance(0.1) => (*rng.pick(&["-0", "0", "0.0", "-0.0"])).to_string(),
            _ => {
                if ms_jitter {
                    // interval differences of a few milliseconds: comparisons like `|a - b| <= 5 ms` get exercised on both
                    // sides of (and exactly on) their boundary
                    fnum(t.round() + *rng.pick(&[0.0, 0.0, 0.0, 5.0, -5.0, 4.0, 6.0, 1.0, 2.0, 3.0, 10.0, -10.0, 25.0]))
                } else if rng.chance(0.85) {
                    fnum(t.round())
                } else {
                    fnum(t)
                }
            }
        };

        let mut dur = 0.0;
        let kind = match kind_idx {
            0 => ObjKind::Circle,
            1 => {
                let zoo = matches!(p, Profile::SliderZoo | Profile::Limits);
                // a slider that lasts for weeks (1 BPM, 0.1x velocity, long path, many repeats): integer time arithmetic
                // in the conversions has to cope with durations around and beyond i32::MAX milliseconds
                let giant = zoo && rng.chance(0.04);
                if giant {
                    for (blv, un) in [("60000", true), ("-1000", false)] {
                        f.timing.push(TimingLine {
                            time: fnum(t.round()),
                            beat_len: blv.to_string(),
                            meter: "4".into(),
                            uninherited: Some(un),
                            effects: Some(0),
                        });
                    }
                    bl = 60000.0;
                }
                let slides: i64 = if giant {
                    *rng.pick(&[2, 20, 100, 1])
                } else if zoo {
                    *rng.pick(&[1, 1, 2, 3, 0, -1, 10, 50, 100, 101, 2, 4])
                } else {
                    *rng.pick(&[1, 1, 1, 2, 2, 3, 4])
                };
                let len: f64 = if giant {
                    *rng.pick(&[2000.0, 20000.0, 9000.0])
                } else if p == Profile::Late {
                    *rng.pick(&[0.5, 1.0, 2.0, 5.0, 20.0, 100.0])
                } else if zoo {
                    *rng.pick(&[0.0, 1.0, 50.0, 100.0, 500.0, 2000.0, 20000.0, -5.0, 0.5, 131072.0, 140.0])
                } else {
                    (rng.range(2, 40) * 10) as f64 * *rng.pick(&[1.0, 1.0, 0.75, 1.75])
                };
                let (es, eset) = edge_sounds(rng, slides.max(1));
                // approximate duration (for advancing time)
                dur = (len.max(0.0) / 140.0 * bl * slides.max(1) as f64).min(20000.0);
                ObjKind::Slider {
                    curve: curve(rng, x, y, zoo),
                    slides: slides.to_string(),
                    length: if zoo && rng.chance(0.05) {
                        None
                    } else {
                        Some(fnum(len))
                    },
                    edge_sounds: es,
                    edge_sets: eset,
                }
            }
            2 => {
                dur = match p {
                    Profile::Limits => *rng.pick(&[0.0, 1.0, 1000.0, -500.0, 1e7]),
                    Profile::Spinners => *rng.pick(&[0.0, 1.0, 50.0, 500.0, 2000.0, 10000.0]),
                    Profile::Late => *rng.pick(&[1.0, 1.0, 2.0, 3.0, 7.0, 20.0, 50.0, 99.0, 101.0, 400.0]),
                    _ => (rng.range(1, 16) as f64) * bl * 0.5,
                };
                let end = t + dur;
                dur = dur.max(0.0);
                ObjKind::Spinner { end: fnum(end.round()) }
            }
            _ => {
                dur = match p {
                    Profile::Holds => {
                        let k = rng.range(0, 30) as f64 * 100.0;
                        k + *rng.pick(&[0.0, 0.0, 0.0, 1.0, -1.0, 0.5, 0.001])
                    }
                    Profile::Limits => *rng.pick(&[0.0, -100.0, 1e6, 50.0]),
                    Profile::Late => *rng.pick(&[1.0, 2.0, 5.0, 30.0, 100.0]),
                    _ => (rng.range(0, 8) as f64) * bl * 0.5,
                };
                let end = t + dur;
                dur = 0.0; // holds overlap other columns freely
                ObjKind::Hold { end: fnum(end) }
            }
        };

        f.objects.push(ObjLine {
            x: x.to_string(),
            y: y.to_string(),
            time: time_s,
            extra_type,
            sound: snd,
            kind,
            sample: smp,
        });

        // advance time
        let step = *rng.pick(divisors) * bl;
        let mut adv = if matches!(p, Profile::Ties | Profile::Dense | Profile::Stacked) || mode == 3 {
            step
        } else {
            step + dur
        };
        match p {
            Profile::Gaps => {
                if rng.chance(0.08) {
                    adv += *rng.pick(&[60_000.0, 600_000.0, 3_600_000.0, 7_200_000.0, 20_000_000.0]);
                    // the object that ends the empty stretch sometimes sits exactly on a strain-section boundary
                    // (sections are 400 ms, 750 ms for catch, counted from time 0; 300/1500 cover clock rates 0.75/1.5, 2)
                    if rng.chance(0.5) {
                        let unit = *rng.pick(&[400.0, 400.0, 750.0, 300.0, 600.0, 200.0, 800.0, 1500.0]);
                        let target = ((t + adv) / unit).ceil() * unit;
                        adv = target - t;
                    }
                }
            }
            Profile::Limits => {
                if rng.chance(0.1) {
                    adv += *rng.pick(&[1e6, 1e7, 8e7, -1e5]);
                }
            }
            Profile::Ties => {
                if rng.chance(0.1) {
                    adv = -bl;
                }
            }
            _ => {}
        }
        t += adv;
    }

    // unsorted lines on purpose, sometimes
    if matches!(p, Profile::Ties | Profile::Limits) && rng.chance(0.5) {
        rng.shuffle(&mut f.objects);
    }
    if matches!(p, Profile::Ties | Profile::Limits) && rng.chance(0.5) {
        rng.shuffle(&mut f.timing);
    }

    // breaks
    if rng.chance(0.3) {
        let a = t0 + rng.range(0, 10000) as f64;
        let b = a + rng.range(-100, 20000) as f64;
        f.breaks.push((fnum(a), fnum(b)));
    }

    if p == Profile::Limits {
        // hostile difficulty tokens
        for slot in [&mut f.hp, &mut f.cs, &mut f.od, &mut f.ar, &mut f.sm, &mut f.tr, &mut f.stack_leniency] {
            if rng.chance(0.3) {
                *slot = Some((*rng.pick(HOSTILE_NUMS)).to_string());
            }
        }
        for tl in &mut f.timing {
            if rng.chance(0.2) {
                tl.time = (*rng.pick(HOSTILE_NUMS)).to_string();
            }
            if rng.chance(0.2) {
                tl.beat_len = (*rng.pick(HOSTILE_NUMS)).to_string();
            }
            if rng.chance(0.1) {
                tl.meter = (*rng.pick(&["0", "-1", "4", "NaN", "1e3"])).to_string();
            }
        }
        for o in &mut f.objects {
            if rng.chance(0.1) {
                o.x = (*rng.pick(HOSTILE_NUMS)).to_string();
            }
            if rng.chance(0.1) {
                o.y = (*rng.pick(HOSTILE_NUMS)).to_string();
            }
            match &mut o.kind {
                ObjKind::Slider { slides, length, .. } => {
                    if rng.chance(0.15) {
                        *slides = (*rng.pick(HOSTILE_NUMS)).to_string();
                    }
                    if rng.chance(0.15) {
                        *length = Some((*rng.pick(HOSTILE_NUMS)).to_string());
                    }
                }
                ObjKind::Spinner { end } | ObjKind::Hold { end } => {
                    if rng.chance(0.2) {
                        *end = (*rng.pick(HOSTILE_NUMS)).to_string();
                    }
                }
                ObjKind::Circle => {}
            }
        }
    }

    f
}

/// A small, decodable file whose LAST slider line is rejected half-way through a multi-segment path (an earlier segment
/// converts, a later one does not parse). Decoding it leaves whatever the decoder keeps in scratch buffers in the state
/// "after a failed slider" - the hostile neighbour for history-independence checks.
pub fn half_rejected_tail_text(rng: &mut Rng) -> String {
    let mode = rng.below(4);
    let tail = *rng.pick(&["12", "x:y", ":", "300:abc", "1e400:5"]);
    let seg1 = *rng.pick(&["B|150:150|200:100", "B|200:200|250:200", "L|180:140", "P|200:200|300:100"]);
    let seg2 = *rng.pick(&["L|250:120", "B|250:120|260:130", "L|300:300"]);
    let mut t = String::from("osu file format v14\n\n[General]\nMode: ");
    t.push_str(&mode.to_string());
    t.push_str("\n\n[Difficulty]\nHPDrainRate:5\nCircleSize:4\nOverallDifficulty:6\nApproachRate:7\nSliderMultiplier:1.4\nSliderTickRate:1\n\n[TimingPoints]\n0,400,4,2,0,60,1,0\n\n[HitObjects]\n");
    if rng.chance(0.5) {
        t.push_str("100,100,600,2,0,L|200:100,1,100\n");
    }
    t.push_str("64,64,1000,1,0\n192,192,1400,1,2\n");
    t.push_str(&format!("100,100,2000,2,0,{seg1}|{seg2}|{tail},1,240\n"));
    if rng.chance(0.5) {
        t.push_str("320,192,3000,1,0\n");
    }
    t
}

/// An osu!standard map with one slider that lasts for weeks (1 BPM, 0.1x slider velocity, multiplier 0.4, long path, a few
/// repeats): its duration in milliseconds is around or beyond `i32::MAX`. Cheap to convert (one object), but integer time
/// arithmetic in the conversions has to cope with it.
pub fn giant_slider_file(rng: &mut Rng) -> OsuFile {
    let mut f = OsuFile {
        version: Some(14),
        mode: 0,
        hp: Some("5".into()),
        cs: Some("4".into()),
        od: Some("7".into()),
        ar: Some("8".into()),
        sm: Some("0.4".into()),
        tr: Some((*rng.pick(&["1", "0.5", "2"])).to_string()),
        ..OsuFile::default()
    };
    f.timing.push(TimingLine { time: "0".into(), beat_len: "60000".into(), meter: "4".into(), uninherited: Some(true), effects: Some(0) });
    f.timing.push(TimingLine { time: "0".into(), beat_len: "-1000".into(), meter: "4".into(), uninherited: Some(false), effects: Some(0) });
    let circle = |x: i64, t: f64| ObjLine { x: x.to_string(), y: "192".into(), time: fnum(t), extra_type: 0, sound: 0, kind: ObjKind::Circle, sample: None };
    f.objects.push(circle(100, 200.0));
    let len = *rng.pick(&[20000.0, 100000.0, 8000.0, 50000.0]);
    let slides = *rng.pick(&[2i64, 8, 20, 3]);
    f.objects.push(ObjLine {
        x: "256".into(),
        y: "192".into(),
        time: fnum(*rng.pick(&[1000.0, 0.0, 5000.0, 100000.0])),
        extra_type: 0,
        sound: 0,
        kind: ObjKind::Slider { curve: "L|356:192".into(), slides: slides.to_string(), length: Some(fnum(len)), edge_sounds: None, edge_sets: None },
        sample: None,
    });
    if rng.chance(0.5) {
        f.objects.push(circle(300, 2_000_000_000.0));
    }
    f
}

/// A map that `Beatmap::check_suspicion` rejects (too dense, or first and last object more than a day apart) but that is
/// cheap to calculate: such maps are still maps, the relational properties hold for them too.
pub fn suspicious_cheap_file(rng: &mut Rng, mode: u8) -> OsuFile {
    let mut f = OsuFile {
        version: Some(14),
        mode,
        hp: Some("5".into()),
        cs: Some(if mode == 3 { "4".into() } else { "4.2".into() }),
        od: Some("7".into()),
        ar: Some("8".into()),
        sm: Some("1.4".into()),
        tr: Some("1".into()),
        ..OsuFile::default()
    };
    f.timing.push(TimingLine {
        time: "0".into(),
        beat_len: "400".into(),
        meter: "4".into(),
        uninherited: Some(true),
        effects: Some(0),
    });
    let dense = rng.chance(0.5);
    let n = if dense { rng.range(110, 300) as usize } else { rng.range(20, 60) as usize };
    let mut t = 1000.0;
    for i in 0..n {
        let x = if mode == 3 { [64, 192, 320, 448][i % 4] } else { rng.range(0, 512) };
        f.objects.push(ObjLine {
            x: x.to_string(),
            y: rng.range(0, 384).to_string(),
            time: fnum(t),
            extra_type: 0,
            sound: *rng.pick(&[0u32, 2, 8]),
            kind: ObjKind::Circle,
            sample: None,
        });
        t += if dense { rng.range(2, 8) as f64 } else { *rng.pick(&[100.0, 200.0, 400.0]) };
        if !dense && i == n - 2 {
            t += 3_600_000.0 * rng.range(25, 30) as f64;
        }
    }
    f
}

/// A long but plain map (1 500 - 6 000 objects, integer times, mostly circles with a few short sliders, spinners or
/// holds): the performance calculators have branches that only open beyond ~1 500 / 2 000 / 2 500 hits (length bonuses).
pub fn long_file(rng: &mut Rng, mode: u8) -> OsuFile {
    let n = *rng.pick(&[1500usize, 2001, 2501, 2600, 3000, 4000, 6000]) + rng.usize_below(40);
    long_file_n(rng, mode, n)
}

pub fn long_file_n(rng: &mut Rng, mode: u8, n: usize) -> OsuFile {
    let mut f = OsuFile {
        version: Some(14),
        mode,
        hp: Some(rng.range(0, 10).to_string()),
        cs: Some(if mode == 3 { rng.range(4, 9).to_string() } else { rng.range(2, 7).to_string() }),
        od: Some(rng.range(0, 10).to_string()),
        ar: Some(rng.range(0, 10).to_string()),
        sm: Some("1.4".into()),
        tr: Some("1".into()),
        ..OsuFile::default()
    };
    let bl = *rng.pick(&[300.0, 333.333333333333, 400.0, 500.0, 250.0]);
    f.timing.push(TimingLine {
        time: "0".into(),
        beat_len: fnum(bl),
        meter: "4".into(),
        uninherited: Some(true),
        effects: Some(0),
    });
    let keys = f.cs.as_ref().and_then(|c| c.parse::<i64>().ok()).unwrap_or(4).max(1);
    let mut t = 500.0;
    for i in 0..n {
        let step = *rng.pick(&[bl / 4.0, bl / 2.0, bl / 2.0, bl, bl]);
        let x = if mode == 3 {
            let col = rng.range(0, keys - 1);
            ((col * 512 + 256) / keys).to_string()
        } else {
            rng.range(0, 512).to_string()
        };
        let y = rng.range(0, 384).to_string();
        let r = rng.below(100);
        let (kind, dur) = if r < 4 && mode != 3 {
            let len = rng.range(40, 200);
            let d = len as f64 / 140.0 * bl;
            (
                ObjKind::Slider {
                    curve: format!("L|{}:{}", rng.range(0, 512), rng.range(0, 384)),
                    slides: "1".into(),
                    length: Some(len.to_string()),
                    edge_sounds: None,
                    edge_sets: None,
                },
                d,
            )
        } else if r < 5 && mode != 3 {
            let d = rng.range(300, 1500) as f64;
            (ObjKind::Spinner { end: fnum((t + d).round()) }, d)
        } else if r < 15 && mode == 3 {
            let d = rng.range(100, 900) as f64;
            (ObjKind::Hold { end: fnum((t + d).round()) }, 0.0)
        } else {
            (ObjKind::Circle, 0.0)
        };
        f.objects.push(ObjLine {
            x,
            y,
            time: fnum(t.round()),
            extra_type: if i % 7 == 0 { 4 } else { 0 },
            sound: *rng.pick(&[0u32, 0, 2, 8, 4]),
            kind,
            sample: None,
        });
        t += step.max(30.0) + dur;
    }
    f
}

/// A mid-size map (by default 130 - 500 objects) built from *phases*, the way charted maps are: a stretch on a steady
/// beat, a stretch cycling through two to four gaps, a stretch where no two gaps are alike, an accelerating stretch;
/// each phase with its own object kinds (circles only / short sliders only / mixed), placement (random, stacked, stream)
/// and - for taiko - colour pattern (long mono streaks, alternation, random). Look-back windows of the skills (taiko's 64
/// ratio pairs, osu!'s 32-object history, rhythm windows in ms) end inside a *different* phase than the current object only
/// on such maps; short maps never fill the windows and statistically uniform long maps fill them with more of the same.
/// Two maps in ten consist of circles only, one in ten of sliders only.
pub fn phased_file(rng: &mut Rng, mode: u8, n: usize) -> OsuFile {
    let mut f = OsuFile {
        version: Some(14),
        mode,
        stack_leniency: Some(rng.pick(&["0.7", "0.7", "1", "0.3", "0"]).to_string()),
        hp: Some(rng.range(0, 10).to_string()),
        cs: Some(if mode == 3 { rng.range(4, 9).to_string() } else { rng.range(2, 7).to_string() }),
        od: Some(rng.range(0, 10).to_string()),
        ar: Some(rng.range(0, 10).to_string()),
        sm: Some(rng.pick(&["1.4", "1", "2.2", "0.8"]).to_string()),
        tr: Some(rng.pick(&["1", "2", "1"]).to_string()),
        ..OsuFile::default()
    };
    let bl = *rng.pick(&[300.0, 333.333333333333, 400.0, 500.0, 250.0, 461.538461538462]);
    f.timing.push(TimingLine {
        time: "0".into(),
        beat_len: fnum(bl),
        meter: "4".into(),
        uninherited: Some(true),
        effects: Some(0),
    });
    let keys = f.cs.as_ref().and_then(|c| c.parse::<i64>().ok()).unwrap_or(4).max(1);
    let map_kinds = match rng.below(10) {
        0 | 1 => 1u8,
        2 => 2,
        _ => 0,
    };
    let mut t = 200.0 + rng.range(0, 2000) as f64;
    let mut made = 0usize;
    let mut first_phase = true;
    let mut prev_rhythm = 0u64;
    let (mut px, mut py) = (256i64, 192i64);
    while made < n {
        // ---- one phase
        let len = match rng.below(6) {
            0 => rng.range(3, 9) as usize,
            1 | 2 => rng.range(10, 40) as usize,
            3 => rng.range(60, 135) as usize,
            4 => rng.range(126, 140) as usize, // just around twice the 64-pair look-back
            _ => rng.range(30, 200) as usize,
        }
        ;
        // rhythm of the phase: 0 steady, 1 cycle, 2 all gaps different, 3 accelerating
        let mut rhythm = if first_phase { *rng.pick(&[0u64, 0, 1, 2]) } else { rng.below(4) };
        let mut len = len;
        // a repetitive stretch is often followed by a long stretch without any repetition (and the other way round): the
        // look-back of an object deep inside the second one then ends exactly where the first one does
        let mut long_cycle = false;
        if !first_phase && prev_rhythm == 0 && rng.below(5) < 2 {
            // (the skills snap interval ratios to a few common values: "without repetition" as they see it is mostly a cycle
            // of three or four different gaps, where neighbours at distance two never agree)
            rhythm = *rng.pick(&[2u64, 1, 1]);
            long_cycle = true;
            len = rng.range(120, 200) as usize;
        } else if !first_phase && prev_rhythm != 0 && rng.below(5) < 2 {
            rhythm = 0;
            len = rng.range(4, 30) as usize;
        }
        let len = len.min(n - made);
        prev_rhythm = rhythm;
        first_phase = false;
        let cycle: Vec<f64> = if long_cycle {
            let mut pool = vec![bl / 4.0, bl / 2.0, bl, 100.0, 200.0, 150.0, bl / 3.0, 250.0];
            rng.shuffle(&mut pool);
            pool.truncate(rng.range(3, 4) as usize);
            pool
        } else {
            (0..rng.range(2, 4)).map(|_| *rng.pick(&[bl / 4.0, bl / 2.0, bl, 100.0, 200.0, 150.0])).collect()
        };
        let base = *rng.pick(&[bl / 4.0, bl / 2.0, bl / 2.0, bl, bl / 3.0, 100.0, 200.0]);
        let mut acc = base.max(40.0) * 2.0;
        let kinds = if map_kinds != 0 { map_kinds } else { *rng.pick(&[0u8, 1, 1, 2, 0]) };
        let placement = rng.below(4); // 0 random, 1 stacks, 2 stream, 3 far jumps
        let colour = rng.below(3); // taiko: 0 random, 1 long mono streaks, 2 alternating
        let mut streak_left = 0u64;
        let mut streak_sound = 0u32;
        for k in 0..len {
            let gap = match rhythm {
                0 => base,
                1 => cycle[k % cycle.len()],
                2 => 61.0 + (rng.range(0, 400) as f64) + (k % 7) as f64 * 3.0,
                _ => {
                    acc = (acc * 0.97).max(45.0);
                    acc
                }
            }
            .max(30.0);
            let (x, y) = if mode == 3 {
                let col = rng.range(0, keys - 1);
                ((col * 512 + 256) / keys, 192)
            } else {
                match placement {
                    1 => {
                        if k % 4 == 0 {
                            px = rng.range(0, 512);
                            py = rng.range(0, 384);
                        }
                        (px, py)
                    }
                    2 => {
                        px = (px + rng.range(5, 30)).rem_euclid(512);
                        py = (py + rng.range(-10, 10)).rem_euclid(384);
                        (px, py)
                    }
                    3 => {
                        px = if px < 256 { rng.range(400, 512) } else { rng.range(0, 100) };
                        py = if py < 192 { rng.range(300, 384) } else { rng.range(0, 80) };
                        (px, py)
                    }
                    _ => {
                        px = rng.range(0, 512);
                        py = rng.range(0, 384);
                        (px, py)
                    }
                }
            };
            let want_slider = match kinds {
                1 => false,
                2 => true,
                _ => rng.below(5) == 0,
            };
            let r = rng.below(200);
            let (kind, dur) = if mode == 3 {
                if r < 30 {
                    let d = rng.range(100, 900) as f64;
                    (ObjKind::Hold { end: fnum((t + d).round()) }, 0.0)
                } else {
                    (ObjKind::Circle, 0.0)
                }
            } else if r == 0 && kinds != 1 {
                let d = rng.range(300, 1500) as f64;
                (ObjKind::Spinner { end: fnum((t + d).round()) }, d)
            } else if want_slider {
                let len_px = rng.range(30, 160);
                let slides = *rng.pick(&[1i64, 1, 1, 2, 3]);
                let sm: f64 = f.sm.as_ref().and_then(|s| s.parse().ok()).unwrap_or(1.4);
                let d = len_px as f64 / (100.0 * sm) * bl * slides as f64;
                (
                    ObjKind::Slider {
                        curve: format!("L|{}:{}", (x + rng.range(-150, 150)).clamp(0, 512), (y + rng.range(-100, 100)).clamp(0, 384)),
                        slides: slides.to_string(),
                        length: Some(len_px.to_string()),
                        edge_sounds: None,
                        edge_sets: None,
                    },
                    d,
                )
            } else {
                (ObjKind::Circle, 0.0)
            };
            let sound = if mode == 1 || mode == 0 {
                match colour {
                    1 => {
                        if streak_left == 0 {
                            streak_left = rng.range(2, 12) as u64;
                            streak_sound = if streak_sound == 0 { *rng.pick(&[2u32, 8, 10]) } else { 0 };
                        }
                        streak_left -= 1;
                        streak_sound
                    }
                    2 => {
                        if k % 2 == 0 {
                            0
                        } else {
                            8
                        }
                    }
                    _ => *rng.pick(&[0u32, 0, 2, 8, 4, 12]),
                }
            } else {
                *rng.pick(&[0u32, 0, 2, 8, 4])
            };
            f.objects.push(ObjLine {
                x: x.to_string(),
                y: y.to_string(),
                time: fnum(t.round()),
                extra_type: if k == 0 { 4 } else { 0 },
                sound,
                kind,
                sample: None,
            });
            made += 1;
            t += gap + dur;
        }
        // sometimes a break-sized pause between phases
        if rng.below(4) == 0 {
            t += rng.range(800, 6000) as f64;
        }
    }
    f
}

/// Build a `ties` timing setup where several distinct beat lengths accumulate *equal* durations,
/// so that `bpm()` has to break a tie.
pub fn bpm_tie_file(rng: &mut Rng) -> OsuFile {
    let mut f = OsuFile {
        version: Some(14),
        mode: *rng.pick(&[0u8, 1, 2, 3]),
        hp: Some("5".into()),
        cs: Some("4".into()),
        od: Some("5".into()),
        ar: Some("5".into()),
        sm: Some("1.4".into()),
        tr: Some("1".into()),
        ..OsuFile::default()
    };
    let k = rng.range(2, 6) as usize;
    let mut bls: Vec<f64> = vec![300.0, 400.0, 500.0, 600.0, 250.0, 375.0, 750.0, 461.538461538462];
    rng.shuffle(&mut bls);
    let seg = rng.range(1, 20) as f64 * 1000.0;
    let reps = rng.range(1, 3) as usize;
    let mut t = 0.0;
    for _ in 0..reps {
        for bl in bls.iter().take(k) {
            f.timing.push(TimingLine {
                time: fnum(t),
                beat_len: fnum(*bl),
                meter: "4".into(),
                uninherited: Some(true),
                effects: Some(0),
            });
            t += seg;
        }
    }
    // last object exactly at the end of the last segment => all durations equal
    let n = rng.range(1, 12);
    for i in 0..n {
        let tt = if i == n - 1 { t } else { (t * i as f64 / n as f64).round() };
        f.objects.push(ObjLine {
            x: ((i * 40) % 512).to_string(),
            y: "192".into(),
            time: fnum(tt),
            extra_type: 0,
            sound: 0,
            kind: ObjKind::Circle,
            sample: None,
        });
    }
    f
}

// ---------------------------------------------------------------------------------------------
// G-mut: fixture mutation at text level

pub const FIXTURES: &[(&str, u8)] = &[
    ("2785319.osu", 0),
    ("1028484.osu", 1),
    ("2118524.osu", 2),
    ("1638954.osu", 3),
];

pub fn load_fixture(idx: usize) -> String {
    let path = format!("/repo/resources/{}", FIXTURES[idx % FIXTURES.len()].0);
    std::fs::read_to_string(&path).unwrap_or_else(|e| panic!("cannot read fixture {path}: {e}"))
}

/// Cut a fixture to at most `max_objects` hit-object lines taken from a random window.
pub fn fixture_window(rng: &mut Rng, text: &str, max_objects: usize) -> String {
    let lines: Vec<&str> = text.lines().collect();
    let ho = lines
        .iter()
        .position(|l| l.trim() == "[HitObjects]")
        .unwrap_or(lines.len());
    let objs: Vec<&str> = lines.iter().skip(ho + 1).copied().filter(|l| !l.trim().is_empty()).collect();
    let mut out: Vec<&str> = lines[..(ho + 1).min(lines.len())].to_vec();
    if objs.is_empty() {
        return out.join("\n");
    }
    let n = 1 + rng.usize_below(max_objects.min(objs.len()));
    let start = if rng.chance(0.4) { 0 } else { rng.usize_below(objs.len() - n + 1) };
    out.extend_from_slice(&objs[start..start + n]);
    out.join("\n")
}

fn mutate_number_token(rng: &mut Rng, tok: &str) -> String {
    if let Ok(v) = tok.trim().parse::<f64>() {
        match rng.below(9) {
            0 => fnum(v + 1.0),
            1 => fnum(v - 1.0),
            2 => fnum(v * 10.0),
            3 => fnum(-v),
            4 => fnum(v * 0.5),
            5 => fnum(v + 0.5),
            6 => fnum(v * 1000.0),
            _ => (*rng.pick(HOSTILE_NUMS)).to_string(),
        }
    } else {
        (*rng.pick(HOSTILE_NUMS)).to_string()
    }
}

pub fn mutate_text(rng: &mut Rng, text: &str, n_mut: usize, realistic: bool) -> String {
    let mut lines: Vec<String> = text.lines().map(str::to_string).collect();
    for _ in 0..n_mut {
        if lines.is_empty() {
            break;
        }
        let ho = lines.iter().position(|l| l.trim() == "[HitObjects]").unwrap_or(0);
        let tp = lines.iter().position(|l| l.trim() == "[TimingPoints]").unwrap_or(0);
        let choice = if realistic { rng.below(6) } else { rng.below(17) };
        match choice {
            0 => {
                // delete a line in objects/timing
                let lo = tp.min(ho);
                let i = lo + rng.usize_below(lines.len() - lo);
                if !lines[i].starts_with('[') {
                    lines.remove(i);
                }
            }
            1 => {
                // duplicate an object line
                if ho + 1 < lines.len() {
                    let i = ho + 1 + rng.usize_below(lines.len() - ho - 1);
                    let l = lines[i].clone();
                    lines.insert(i, l);
                }
            }
            2 => {
                // change mode
                for l in lines.iter_mut() {
                    if l.starts_with("Mode:") {
                        *l = format!("Mode: {}", rng.below(4));
                    }
                }
            }
            3 => {
                // change version
                let v = *rng.pick(&[3, 4, 5, 6, 7, 8, 9, 10, 12, 13, 14, 128]);
                if !lines.is_empty() && lines[0].starts_with("osu file format") {
                    lines[0] = format!("osu file format v{v}");
                }
            }
            4 => {
                // swap object type of one line between circle/spinner
                if ho + 1 < lines.len() {
                    let i = ho + 1 + rng.usize_below(lines.len() - ho - 1);
                    let parts: Vec<&str> = lines[i].split(',').collect();
                    if parts.len() >= 5 {
                        let t: f64 = parts[2].parse().unwrap_or(0.0);
                        let nl = match rng.below(3) {
                            0 => format!("{},{},{},1,{}", parts[0], parts[1], parts[2], parts[4]),
                            1 => format!(
                                "{},{},{},12,{},{}",
                                parts[0],
                                parts[1],
                                parts[2],
                                parts[4],
                                fnum(t + rng.range(0, 3000) as f64)
                            ),
                            _ => format!(
                                "{},{},{},2,{},B|{}:{}|{}:{},{},{}",
                                parts[0],
                                parts[1],
                                parts[2],
                                parts[4],
                                rng.range(0, 512),
                                rng.range(0, 384),
                                rng.range(0, 512),
                                rng.range(0, 384),
                                rng.range(1, 4),
                                rng.range(10, 400)
                            ),
                        };
                        lines[i] = nl;
                    }
                }
            }
            5 => {
                // perturb difficulty value
                let keys = ["HPDrainRate", "CircleSize", "OverallDifficulty", "ApproachRate", "SliderMultiplier", "SliderTickRate"];
                let k = *rng.pick(&keys);
                for l in lines.iter_mut() {
                    if l.starts_with(k) {
                        let v = if realistic {
                            if k.starts_with("Slider") {
                                fnum(*rng.pick(&[0.4, 1.0, 1.4, 2.0, 3.6, 0.5, 4.0, 8.0]))
                            } else {
                                fnum(rng.range(0, 100) as f64 / 10.0)
                            }
                        } else {
                            (*rng.pick(HOSTILE_NUMS)).to_string()
                        };
                        *l = format!("{k}:{v}");
                    }
                }
            }
            6 => {
                // perturb one numeric token in a random objects/timing line
                let lo = tp.min(ho);
                let i = lo + rng.usize_below(lines.len() - lo);
                let mut parts: Vec<String> = lines[i].split(',').map(str::to_string).collect();
                if !parts.is_empty() {
                    let j = rng.usize_below(parts.len());
                    parts[j] = mutate_number_token(rng, &parts[j]);
                    lines[i] = parts.join(",");
                }
            }
            7 => {
                // shuffle object lines
                if ho + 2 < lines.len() {
                    let (_, tail) = lines.split_at_mut(ho + 1);
                    rng.shuffle(tail);
                }
            }
            8 => {
                // truncate
                let keep = rng.usize_below(lines.len()) + 1;
                lines.truncate(keep);
            }
            9 => {
                // move section header
                let i = rng.usize_below(lines.len());
                let hdr = *rng.pick(&["[HitObjects]", "[TimingPoints]", "[Difficulty]", "[General]", "[Events]", "[Nope]"]);
                lines.insert(i, hdr.to_string());
            }
            10 => {
                // time shift all objects
                let shift = *rng.pick(&[-5000.0, 1e6, 3.3554432e7, 1.0e9, 2.1e9, -1e6]);
                for l in lines.iter_mut().skip(ho + 1) {
                    let mut parts: Vec<String> = l.split(',').map(str::to_string).collect();
                    if parts.len() >= 5 {
                        if let Ok(t) = parts[2].parse::<f64>() {
                            parts[2] = fnum(t + shift);
                        }
                        *l = parts.join(",");
                    }
                }
            }
            11 => {
                // scale gaps
                let scale = *rng.pick(&[0.0, 0.01, 10.0, 1000.0]);
                for l in lines.iter_mut().skip(ho + 1) {
                    let mut parts: Vec<String> = l.split(',').map(str::to_string).collect();
                    if parts.len() >= 5 {
                        if let Ok(t) = parts[2].parse::<f64>() {
                            parts[2] = fnum((t * scale).round());
                        }
                        *l = parts.join(",");
                    }
                }
            }
            12 => {
                // corrupt one char
                let i = rng.usize_below(lines.len());
                if !lines[i].is_empty() {
                    let mut chars: Vec<char> = lines[i].chars().collect();
                    let j = rng.usize_below(chars.len());
                    chars[j] = *rng.pick(&[',', ':', '|', '-', '9', 'e', ' ', 'N', '.', '\u{0}', 'é']);
                    lines[i] = chars.into_iter().collect();
                }
            }
            13 => {
                // move a whole section (header up to the next header) somewhere else: the decoder must not care about
                // the order in which [General], [Difficulty], [TimingPoints], ... arrive
                let headers: Vec<usize> = lines.iter().enumerate().filter(|(_, l)| l.trim_start().starts_with('[')).map(|(i, _)| i).collect();
                if headers.len() >= 2 {
                    let k = rng.usize_below(headers.len());
                    let start = headers[k];
                    let end = headers.get(k + 1).copied().unwrap_or(lines.len());
                    let block: Vec<String> = lines.drain(start..end).collect();
                    let rest: Vec<usize> = lines.iter().enumerate().filter(|(_, l)| l.trim_start().starts_with('[')).map(|(i, _)| i).collect();
                    let at = if rest.is_empty() || rng.chance(0.3) { lines.len() } else { *rng.pick(&rest) };
                    let at = at.max(usize::from(lines.first().is_some_and(|l| l.starts_with("osu file format"))));
                    for (o, l) in block.into_iter().enumerate() {
                        lines.insert((at + o).min(lines.len()), l);
                    }
                }
            }
            14 | 15 => {
                // a second, different `key: value` line for a header key, at the end of the file in a repeated section
                let (section, key, val): (&str, &str, String) = match rng.below(7) {
                    0 | 1 => ("[General]", "Mode", rng.below(4).to_string()),
                    2 => ("[Difficulty]", "CircleSize", (*rng.pick(&["0", "18", "10", "1", "0.5", "11", "4.5", "-3", "25"])).to_string()),
                    3 => ("[Difficulty]", "SliderMultiplier", (*rng.pick(&["0.4", "3.6", "0", "100", "1.4"])).to_string()),
                    4 => ("[Difficulty]", "SliderTickRate", (*rng.pick(&["0.5", "8", "0", "1", "3"])).to_string()),
                    5 => ("[Difficulty]", "ApproachRate", (*rng.pick(&["0", "10", "11", "-1", "9.6"])).to_string()),
                    _ => ("[General]", "StackLeniency", (*rng.pick(&["0", "1", "0.7", "2"])).to_string()),
                };
                let sep = if section == "[General]" { ": " } else { ":" };
                if rng.chance(0.5) {
                    lines.push(section.to_string());
                    lines.push(format!("{key}{sep}{val}"));
                } else {
                    // or in front of everything else (right after the version line)
                    let at = usize::from(lines.first().is_some_and(|l| l.starts_with("osu file format")));
                    lines.insert(at, format!("{key}{sep}{val}"));
                    lines.insert(at, section.to_string());
                }
            }
            _ => {
                // insert timing line
                let bl = *rng.pick(&["-100", "-50", "500", "NaN", "-0", "6", "60000", "1e-320", "-1e9"]);
                let i = tp + 1 + rng.usize_below((ho.saturating_sub(tp)).max(1));
                let t = *rng.pick(&["0", "-0", "1000", "-1000", "1e9", "2810", "NaN"]);
                let un = rng.below(2);
                if i <= lines.len() {
                    lines.insert(i.min(lines.len()), format!("{t},{bl},4,2,0,60,{un},0"));
                }
            }
        }
    }
    lines.join("\n")
}

// ---------------------------------------------------------------------------------------------
// G-bytes

pub fn noise_bytes(rng: &mut Rng, seed_text: &str) -> Vec<u8> {
    match rng.below(8) {
        0 => {
            let n = rng.usize_below(2000);
            (0..n).map(|_| rng.below(256) as u8).collect()
        }
        1 => {
            // utf-16 LE with BOM
            let mut v = vec![0xFF, 0xFE];
            for u in seed_text.encode_utf16() {
                v.extend_from_slice(&u.to_le_bytes());
            }
            v
        }
        2 => {
            // utf-16 BE with BOM
            let mut v = vec![0xFE, 0xFF];
            for u in seed_text.encode_utf16() {
                v.extend_from_slice(&u.to_be_bytes());
            }
            v
        }
        3 => {
            // utf-16 LE without BOM
            let mut v = vec![];
            for u in seed_text.encode_utf16() {
                v.extend_from_slice(&u.to_le_bytes());
            }
            v
        }
        4 => {
            // random byte flips
            let mut v = seed_text.as_bytes().to_vec();
            let k = 1 + rng.usize_below(20);
            for _ in 0..k {
                if v.is_empty() {
                    break;
                }
                let i = rng.usize_below(v.len());
                v[i] = rng.below(256) as u8;
            }
            v
        }
        5 => {
            // utf-8 BOM + CR-only line endings + NULs
            let mut v = vec![0xEF, 0xBB, 0xBF];
            v.extend(seed_text.replace('\n', if rng.chance(0.5) { "\r" } else { "\r\n" }).into_bytes());
            if rng.chance(0.5) {
                let i = rng.usize_below(v.len());
                v.insert(i, 0);
            }
            v
        }
        6 => {
            // very long line
            let mut v = seed_text.as_bytes().to_vec();
            v.extend(std::iter::repeat(b'1').take(100_000));
            v.push(b'\n');
            v.extend_from_slice(b"[HitObjects]\n1,1,1,1,0\n");
            v
        }
        _ => {
            // invalid utf-8 inside
            let mut v = seed_text.as_bytes().to_vec();
            let i = if v.is_empty() { 0 } else { rng.usize_below(v.len()) };
            v.splice(i..i, [0xC3, 0x28, 0xFF, 0xFE, 0x80]);
            v
        }
    }
}
