//! C07 — mode dispatch and map conversion are mutually consistent.

use std::borrow::Cow;

use rosu_pp::{
    catch::CatchPerformance,
    mania::ManiaPerformance,
    model::mode::GameMode,
    taiko::TaikoPerformance,
    osu::OsuPerformance,
    Beatmap, Performance,
};

use crate::{
    api,
    gen::{self, Mix},
    maps::{dump, mode_name, Domain, MODES},
    props::c03,
    rng::{hash_str, Rng},
    runner::{api as bracket, guard, Ctx},
    sets::{self},
};

#[allow(clippy::too_many_lines)]
pub fn case(ctx: &mut Ctx, idx: u64) {
    let mut rng = Rng::for_case(ctx.seed, "C07", idx);
    let max_objects = if ctx.thorough() { 100 } else { 40 };
    let mx = Mix {
        realistic: true,
        max_objects,
        ..Mix::default()
    };
    let Some((mc, mut map)) = gen::gen_domain_map_ext(&mut rng, &mx, Domain::Realistic, 0, 15) else {
        ctx.count("skipped_no_domain_map");
        return;
    };
    // sometimes start from an already converted map
    if map.mode == GameMode::Osu && rng.chance(0.15) {
        let t = *rng.pick(&[GameMode::Taiko, GameMode::Catch, GameMode::Mania]);
        if let Ok(Ok(c)) = guard(|| api::convert(&map, t, &0u32.into())) {
            map = c;
            ctx.count("class:source-already-converted");
        }
    }
    let src_mode = map.mode;
    ctx.count(&format!("source:{}", mode_name(src_mode)));
    let text = mc.text.as_str();

    for target in MODES {
        let tname = mode_name(target);
        // every comparison below gives the same settings to both sides, so a passed_objects limit (0 and 1 in particular:
        // the calculators have early returns for them) is part of the settings space
        let spec = sets::gen_setspec_wide(&mut rng, target, &map);
        let spec = if rng.chance(0.4) {
            let n = map.hit_objects.len() as u64;
            let p = match rng.below(6) {
                0 | 1 => 0,
                2 => 1,
                3 => 2,
                _ => rng.below(n + 3) as u32,
            };
            ctx.count(if p == 0 { "class:passed_objects(0)" } else { "class:passed_objects(n)" });
            spec.with_passed(p)
        } else {
            spec.without_passed()
        };
        let mods = spec.mods.to_gamemods(target);
        let d = spec.to_difficulty(target);
        let expect_ok = (map.mode == GameMode::Osu && !map.is_convert) || target == map.mode;
        let ctxs = format!("source={} is_convert={} target={tname} settings=[{}]", mode_name(src_mode), map.is_convert, spec.describe());

        // --- three conversion entry points
        let r = guard(|| {
            let by_val = bracket("convert", || map.clone().convert(target, &mods));
            let before = dump(&map);
            let by_ref = bracket("convert_ref", || map.convert_ref(target, &mods).map(|c| (matches!(c, Cow::Borrowed(_)), c.into_owned())));
            let unchanged_by_ref = dump(&map) == before;
            let mut m2 = map.clone();
            let by_mut = bracket("convert_mut", || m2.convert_mut(target, &mods));
            (by_val, by_ref, unchanged_by_ref, by_mut, m2)
        });
        ctx.eval();
        let (by_val, by_ref, unchanged_by_ref, by_mut, m2) = match r {
            Ok(x) => x,
            Err(p) => {
                ctx.violation(
                    &format!("C07/convert-panic/{tname}/{}", p.sig()),
                    &format!("conversion panicked: {} at {} | {ctxs}", p.msg, p.loc),
                    Some(text),
                );
                continue;
            }
        };
        if !unchanged_by_ref {
            ctx.violation(&format!("C07/convert_ref-mutated-source/{tname}"), &ctxs, Some(text));
        }
        let ok_flags = (by_val.is_ok(), by_ref.is_ok(), by_mut.is_ok());
        if ok_flags != (expect_ok, expect_ok, expect_ok) {
            ctx.violation(
                &format!("C07/convertibility/{}->{tname}", mode_name(src_mode)),
                &format!("success flags (convert, convert_ref, convert_mut) = {ok_flags:?}, expected {expect_ok} | {ctxs}"),
                Some(text),
            );
            continue;
        }
        if !expect_ok {
            ctx.count("class:conversion-rejected");
            let e = (
                by_val.as_ref().err().map(api::convert_err_name),
                by_ref.as_ref().err().map(api::convert_err_name),
                by_mut.as_ref().err().map(api::convert_err_name),
            );
            if e.0 != e.1 || e.1 != e.2 {
                ctx.violation(&format!("C07/error-variants-differ/{tname}"), &format!("{e:?} | {ctxs}"), Some(text));
            }
            if dump(&m2) != dump(&map) {
                ctx.violation(&format!("C07/failed-convert_mut-changed-map/{tname}"), &ctxs, Some(text));
            }
            // dispatch on a non-convertible map must fail the same way, not panic
            let r = guard(|| api::calc_for_mode(&d, &map, target));
            ctx.eval();
            match r {
                Ok(Err(_)) => {}
                Ok(Ok(_)) => ctx.violation(&format!("C07/dispatch-accepted-unconvertible/{tname}"), &ctxs, Some(text)),
                Err(p) => ctx.violation(
                    &format!("C07/dispatch-panic-on-unconvertible/{tname}/{}", p.sig()),
                    &format!("{} at {} | {ctxs}", p.msg, p.loc),
                    Some(text),
                ),
            }
            // Performance::try_mode gives the builder back unchanged
            let r = guard(|| {
                let p = Performance::new(&map).difficulty(d.clone());
                let before = dump(&p);
                match p.try_mode(target) {
                    Ok(_) => Err("try_mode succeeded".to_string()),
                    Err(back) => {
                        if dump(&back) == before {
                            Ok(())
                        } else {
                            Err("try_mode returned a modified builder".to_string())
                        }
                    }
                }
            });
            ctx.eval();
            match r {
                Ok(Ok(())) => {}
                Ok(Err(m)) => ctx.violation(&format!("C07/try_mode-on-unconvertible/{tname}"), &format!("{m} | {ctxs}"), Some(text)),
                Err(p) => ctx.violation(&format!("C07/try_mode-panic/{tname}/{}", p.sig()), &format!("{} at {} | {ctxs}", p.msg, p.loc), Some(text)),
            }
            continue;
        }
        let conv = by_val.unwrap();
        let (borrowed, conv_ref) = by_ref.unwrap();
        let cd = dump(&conv);
        if cd != dump(&conv_ref) || cd != dump(&m2) {
            ctx.violation(
                &format!("C07/entry-points-differ/{tname}"),
                &format!("convert / convert_ref / convert_mut produced different maps | {ctxs}"),
                Some(text),
            );
            continue;
        }
        if target == map.mode {
            ctx.count("class:identity");
            if !borrowed || cd != dump(&map) {
                ctx.violation(&format!("C07/identity/{tname}"), &format!("own-mode conversion: borrowed={borrowed} equal={} | {ctxs}", cd == dump(&map)), Some(text));
            }
        } else {
            ctx.count("class:converted");
            if conv.mode != target || !conv.is_convert {
                ctx.violation(
                    &format!("C07/convert-flags/{tname}"),
                    &format!("converted map has mode={:?} is_convert={} | {ctxs}", conv.mode, conv.is_convert),
                    Some(text),
                );
            }
            // converting a convert again must be rejected
            for t2 in MODES {
                if t2 != target {
                    ctx.eval();
                    if let Ok(r2) = guard(|| conv.convert_ref(t2, &mods).map(|_| ())) {
                        if r2.is_ok() {
                            ctx.violation(&format!("C07/reconvert-accepted/{tname}->{}", mode_name(t2)), &ctxs, Some(text));
                        }
                    }
                }
            }
        }
        if conv.hit_objects.len() >= 2 {
            ctx.nontrivial(hash_str(text) ^ hash_str(&spec.describe()) ^ (target as u64));
        }

        // --- dispatch equals calculation on the explicitly converted map
        let cmp = |ctx: &mut Ctx, what: &str, a: Result<String, crate::runner::PanicInfo>, b: Result<String, crate::runner::PanicInfo>| {
            ctx.eval();
            match (a, b) {
                (Ok(a), Ok(b)) => {
                    if a != b {
                        ctx.violation(
                            &format!("C07/dispatch/{what}/{tname}"),
                            &format!("{what}: direct-on-source differs from explicitly converted | {ctxs}\n direct   : {}\n converted: {}", crate::runner::truncate(&a, 1500), crate::runner::truncate(&b, 1500)),
                            Some(text),
                        );
                    }
                }
                (Err(p), _) | (_, Err(p)) => {
                    ctx.violation(
                        &format!("C07/dispatch-panic/{what}/{tname}/{}", p.sig()),
                        &format!("{what} panicked: {} at {} | {ctxs}", p.msg, p.loc),
                        Some(text),
                    );
                }
            }
        };
        cmp(
            ctx,
            "difficulty",
            guard(|| dump(&api::calc_for_mode(&d, &map, target))),
            guard(|| format!("Ok({})", dump(&api::calc(&d, &conv)))),
        );
        cmp(
            ctx,
            "strains",
            guard(|| dump(&api::strains_for_mode(&d, &map, target))),
            guard(|| format!("Ok({})", dump(&api::strains(&d, &conv)))),
        );
        cmp(
            ctx,
            "gradual_difficulty",
            guard(|| {
                let g = api::gradual(d.clone(), &map, target).map_err(|e| format!("{e:?}"));
                g.map(|g| g.map(|v| dump(&v)).collect::<Vec<_>>().join("\n")).unwrap_or_else(|e| e)
            }),
            guard(|| {
                let g = api::gradual(d.clone(), &conv, conv.mode).map_err(|e| format!("{e:?}"));
                g.map(|g| g.map(|v| dump(&v)).collect::<Vec<_>>().join("\n")).unwrap_or_else(|e| e)
            }),
        );
        // gradual performance with a random schedule (same schedule on both sides)
        let sched: Vec<(usize, rosu_pp::any::ScoreState)> = (0..4)
            .map(|_| (c03::gen_k(&mut rng, 6), sets::gen_state(&mut rng, 10)))
            .collect();
        let run_sched = |m: &Beatmap, mode: GameMode| -> String {
            match api::gradual_perf(d.clone(), m, mode) {
                Err(e) => format!("{e:?}"),
                Ok(mut g) => sched
                    .iter()
                    .map(|(k, s)| dump(&api::gp_nth(&mut g, s.clone(), *k)))
                    .collect::<Vec<_>>()
                    .join("\n"),
            }
        };
        cmp(ctx, "gradual_performance", guard(|| run_sched(&map, target)), guard(|| run_sched(&conv, conv.mode)));

        // Performance: try_mode / mode_or_ignore / TryFrom<OsuPerformance> vs Performance::new(&conv)
        let sc = sets::gen_scorespec(&mut rng, conv.hit_objects.len() as u32 + 2);
        let reference = guard(|| dump(&api::perf_calc(sc.apply(Performance::new(&conv).difficulty(d.clone())))));
        let paths: Vec<(&str, Box<dyn FnOnce() -> String + '_>)> = vec![
            (
                "try_mode",
                Box::new(|| match Performance::new(&map).difficulty(d.clone()).try_mode(target) {
                    Ok(p) => dump(&api::perf_calc(sc.apply(p))),
                    Err(_) => "try_mode refused".into(),
                }),
            ),
            (
                "try_mode(owned)",
                Box::new(|| match Performance::new(map.clone()).difficulty(d.clone()).try_mode(target) {
                    Ok(p) => dump(&api::perf_calc(sc.apply(p))),
                    Err(_) => "try_mode refused".into(),
                }),
            ),
            (
                "mode_or_ignore",
                Box::new(|| dump(&api::perf_calc(sc.apply(Performance::new(&map).difficulty(d.clone()).mode_or_ignore(target))))),
            ),
            (
                "mode-specific-new",
                Box::new(|| dump(&api::perf_calc(sc.apply(c03::mode_perf(&map, target).difficulty(d.clone()))))),
            ),
            (
                "TryFrom<OsuPerformance>",
                Box::new(|| {
                    if map.mode != GameMode::Osu {
                        return reference.clone().unwrap_or_default();
                    }
                    let o = OsuPerformance::new(&map).difficulty(d.clone());
                    let p = match target {
                        GameMode::Osu => Some(Performance::Osu(o)),
                        GameMode::Taiko => TaikoPerformance::try_from(o).ok().map(Performance::Taiko),
                        GameMode::Catch => CatchPerformance::try_from(o).ok().map(Performance::Catch),
                        GameMode::Mania => ManiaPerformance::try_from(o).ok().map(Performance::Mania),
                    };
                    match p {
                        Some(p) => dump(&api::perf_calc(sc.apply(p))),
                        None => "try_from refused".into(),
                    }
                }),
            ),
        ];
        for (name, f) in paths {
            let r = guard(f);
            cmp(ctx, &format!("performance::{name}"), r, reference.clone());
        }
        // the same with the settings given through the builder's OWN setters before the switch (mods, clock rate, overrides,
        // passed_objects, lazer); hardrock_offsets is left out: the osu! builder documents it as irrelevant and drops it
        {
            let mut s2 = spec.clone();
            s2.hro = None;
            let d2 = s2.to_difficulty(target);
            let reference2 = guard(|| dump(&api::perf_calc(sc.apply(Performance::new(&conv).difficulty(d2.clone())))));
            let r = guard(|| match crate::props::c04::apply_setters(Performance::new(&map), &s2, target).try_mode(target) {
                Ok(p) => dump(&api::perf_calc(sc.apply(p))),
                Err(_) => "try_mode refused".into(),
            });
            cmp(ctx, "performance::setters.try_mode", r, reference2.clone());
            let r = guard(|| dump(&api::perf_calc(sc.apply(crate::props::c04::apply_setters(Performance::new(map.clone()), &s2, target).mode_or_ignore(target)))));
            cmp(ctx, "performance::setters.mode_or_ignore(owned)", r, reference2);
        }

        // try_mode after generate_state(): the builder no longer holds a map
        if map.mode == GameMode::Osu && target != GameMode::Osu {
            let r = guard(|| {
                let mut p = Performance::new(&map).difficulty(d.clone());
                let _ = bracket("generate_state", || p.generate_state());
                let before = dump(&p);
                match p.try_mode(target) {
                    Ok(_) => Err("succeeded".to_string()),
                    Err(back) => {
                        if dump(&back) == before {
                            Ok(())
                        } else {
                            Err("returned a different builder".to_string())
                        }
                    }
                }
            });
            ctx.eval();
            match r {
                Ok(Ok(())) => {}
                Ok(Err(m)) => ctx.violation(&format!("C07/try_mode-after-generate_state/{tname}"), &format!("{m} | {ctxs}"), Some(text)),
                Err(p) => ctx.violation(&format!("C07/try_mode-after-generate_state-panic/{tname}/{}", p.sig()), &format!("{} at {} | {ctxs}", p.msg, p.loc), Some(text)),
            }
        }
        ctx.sample(|| format!("src={} {ctxs} objects={}", mc.tag, conv.hit_objects.len()));
    }
}
