//! C02 — gradual difficulty equals difficulty of the played prefix.

use rosu_pp::{any::DifficultyAttributes, model::mode::GameMode, Beatmap, GameMods};

use crate::{
    api,
    gen::{self, Mix},
    maps::{self, dump, mode_name, Domain},
    osu::Profile,
    props::{diff_fields, sig_fields},
    rng::{hash_str, Rng},
    runner::{guard, Ctx},
    sets::{self, SetSpec},
};

/// Witness predicate for the signature (evaluated on the failing input).
pub fn predicate(map: &Beatmap, mode: GameMode, spec: &SetSpec) -> String {
    let conv = map
        .convert_ref(mode, &spec.mods.to_gamemods(mode))
        .map(|c| c.into_owned())
        .unwrap_or_else(|_| map.clone());
    match mode {
        GameMode::Taiko => {
            let a = conv.hit_objects.first().map(|h| h.is_circle());
            let b = conv.hit_objects.get(1).map(|h| h.is_circle());
            if a == Some(true) && b != Some(false) {
                "first2-hits".into()
            } else {
                "first2-not-both-hits".into()
            }
        }
        GameMode::Mania => {
            if conv.hit_objects.iter().any(|h| h.is_hold_note() || h.is_slider() || h.is_spinner()) {
                "has-long-notes".into()
            } else {
                "no-long-notes".into()
            }
        }
        _ => "-".into(),
    }
}

pub fn settings(rng: &mut Rng, mode: GameMode, map: &Beatmap) -> SetSpec {
    let mut spec = sets::gen_setspec_wide(rng, mode, map).without_passed();
    if rng.chance(0.4) {
        spec.clock = Some(*rng.pick(&[0.75, 1.3, 1.5, 1.3, 0.9, 1.1]));
    }
    spec
}

pub fn mix(ctx: &Ctx, rng: &mut Rng) -> Mix {
    let max_objects = if ctx.thorough() { 150 } else { 60 };
    if rng.chance(0.5) {
        Mix {
            realistic: true,
            max_objects,
            profiles: Some(vec![
                Profile::Tiny,
                Profile::NonHitFirst,
                Profile::Holds,
                Profile::Spinners,
                Profile::NonHitFirst,
            ]),
            fixtures: false,
            mode: None,
        }
    } else {
        Mix {
            realistic: true,
            max_objects,
            ..Mix::default()
        }
    }
}

pub fn case(ctx: &mut Ctx, idx: u64) {
    let mut rng = Rng::for_case(ctx.seed, "C02", idx);
    // 4 % of the cases: few objects, but any slider the decoder accepts inside the adversarial domain (very slow or very long
    // sliders with hundreds of ticks and tiny droplets between two slider events, extreme velocities)
    let zoo = rng.below(25) == 0;
    let (mx, dom) = if zoo {
        ctx.count("class:slider-zoo");
        (
            Mix {
                realistic: false,
                max_objects: 10,
                profiles: Some(vec![Profile::SliderZoo, Profile::SliderZoo, Profile::Limits]),
                fixtures: false,
                mode: None,
            },
            Domain::Adversarial,
        )
    } else {
        (mix(ctx, &mut rng), Domain::Realistic)
    };
    let Some((mc, map)) = gen::gen_domain_map_ext(&mut rng, &mx, dom, 3, 15) else {
        ctx.count("skipped_no_domain_map");
        return;
    };
    let mode = gen::pick_mode(&mut rng, &map);
    let spec = settings(&mut rng, mode, &map);
    check(ctx, &mut rng, &mc.text, &mc.tag, &map, mode, &spec);
}

#[allow(clippy::too_many_lines)]
pub fn check(ctx: &mut Ctx, rng: &mut Rng, text: &str, tag: &str, map: &Beatmap, mode: GameMode, spec: &SetSpec) {
    let d = spec.to_difficulty(mode);
    let mname = mode_name(mode);
    ctx.count(&format!("mode:{mname}"));
    ctx.count(&format!("src:{tag}"));

    // reference: full one-shot calculation
    let full = match guard(|| api::calc_for_mode(&d, map, mode)) {
        Ok(Ok(a)) => a,
        Ok(Err(_)) => {
            ctx.count("skipped_convert_error");
            return;
        }
        Err(p) => {
            ctx.count("skipped_reference_panic");
            ctx.violation(
                &format!("C02/{mname}/reference-panic/{}", p.sig()),
                &format!("one-shot calculation panicked: {} at {} | {}", p.msg, p.loc, spec.describe()),
                Some(text),
            );
            return;
        }
    };

    let pred = predicate(map, mode, spec);
    let witness = |clause: &str, i: usize, a: &str, b: &str| -> String {
        format!(
            "clause={clause} i={i} mode={mname} settings=[{}] src={tag}\n gradual : {a}\n one-shot: {b}",
            spec.describe()
        )
    };

    let mut g = match guard(|| api::gradual(d.clone(), map, mode)) {
        Ok(Ok(g)) => g,
        Ok(Err(e)) => {
            ctx.violation(
                &format!("C02/{mname}/gradual-new-error/{pred}"),
                &format!("gradual constructor failed with {e:?} where one-shot succeeded"),
                Some(text),
            );
            return;
        }
        Err(p) => {
            ctx.violation(
                &format!("C02/{mname}/gradual-new/{}", p.sig()),
                &format!("gradual constructor panicked: {} at {} | {}", p.msg, p.loc, spec.describe()),
                Some(text),
            );
            return;
        }
    };

    let announced = g.len();
    let cap = announced.saturating_add(8).min(100_000);
    let mut vals: Vec<DifficultyAttributes> = Vec::new();
    let r = guard(|| {
        while vals.len() < cap {
            match api::g_next(&mut g) {
                Some(v) => vals.push(v),
                None => break,
            }
        }
    });
    if let Err(p) = r {
        ctx.violation(
            &format!("C02/{mname}/next/{}/{pred}", p.sig()),
            &format!(
                "gradual next() panicked after {} values (announced {announced}): {} at {} | {}",
                vals.len(),
                p.msg,
                p.loc,
                spec.describe()
            ),
            Some(text),
        );
        return;
    }
    let n = vals.len();
    ctx.eval();
    ctx.max("max_sequence_len", n as u64);
    if n >= 2 {
        ctx.nontrivial(hash_str(text) ^ hash_str(&spec.describe()) ^ (mode as u64));
    }
    if pred == "first2-not-both-hits" && n > 0 {
        ctx.count("class:taiko-first2-not-both-hits");
    }
    if n <= 3 {
        ctx.count("class:short-sequence(<=3)");
    }
    ctx.sample(|| {
        format!(
            "mode={mname} src={tag} objects={} values={n} announced={announced} settings=[{}]",
            map.hit_objects.len(),
            spec.describe()
        )
    });

    // clause: count == announced
    if n != announced {
        ctx.violation(
            &format!("C02/{mname}/count-vs-announced/{pred}"),
            &witness("count-vs-announced", n, &format!("produced {n} values"), &format!("announced len {announced}")),
            Some(text),
        );
    }

    // clause: count == the mode's unit count of the full calculation
    let units = maps::unit_count(&full) as usize;
    if n != units {
        ctx.violation(
            &format!("C02/{mname}/count-vs-units/{pred}"),
            &witness("count-vs-units", n, &format!("produced {n} values"), &format!("one-shot counts {units} units: {}", dump(&full))),
            Some(text),
        );
    }

    // clause: final value == full one-shot
    if let Some(last) = vals.last() {
        ctx.eval();
        if dump(last) != dump(&full) {
            let f = diff_fields(last, &full);
            ctx.violation(
                &format!("C02/{mname}/final/{}/{pred}", sig_fields(&f)),
                &witness(&format!("final fields={f:?}"), n, &dump(last), &dump(&full)),
                Some(text),
            );
        }
    } else if units != 0 {
        // nothing produced though objects exist: covered by count-vs-units
    }

    // clause: passed_objects(n+1) == full
    {
        let d1 = spec.with_passed(n as u32 + 1).to_difficulty(mode);
        if let Ok(Ok(a)) = guard(|| api::calc_for_mode(&d1, map, mode)) {
            ctx.eval();
            if dump(&a) != dump(&full) {
                let f = diff_fields(&a, &full);
                ctx.violation(
                    &format!("C02/{mname}/beyond/{}/{pred}", sig_fields(&f)),
                    &witness(&format!("passed_objects(n+1) vs full fields={f:?}"), n + 1, &dump(&a), &dump(&full)),
                    Some(text),
                );
            }
        }
    }

    // clause: v_i == one-shot with passed_objects(i)
    let indices: Vec<usize> = if n <= 150 {
        (1..=n).collect()
    } else {
        let mut v: Vec<usize> = (1..=12).collect();
        v.extend(n - 5..=n);
        for _ in 0..40 {
            v.push(1 + rng.usize_below(n));
        }
        v.sort_unstable();
        v.dedup();
        v
    };
    let mut reported = 0;
    for i in indices {
        let di = spec.with_passed(i as u32).to_difficulty(mode);
        let one = match guard(|| api::calc_for_mode(&di, map, mode)) {
            Ok(Ok(a)) => a,
            Ok(Err(_)) => continue,
            Err(p) => {
                ctx.violation(
                    &format!("C02/{mname}/prefix-reference-panic/{}", p.sig()),
                    &format!("one-shot passed_objects({i}) panicked: {} at {}", p.msg, p.loc),
                    Some(text),
                );
                break;
            }
        };
        ctx.eval();
        let gv = &vals[i - 1];
        if dump(gv) != dump(&one) {
            let f = diff_fields(gv, &one);
            if reported < 2 {
                ctx.violation(
                    &format!("C02/{mname}/prefix/{}/{pred}", sig_fields(&f)),
                    &witness(&format!("prefix fields={f:?} of n={n}"), i, &dump(gv), &dump(&one)),
                    Some(text),
                );
            }
            reported += 1;
        }
    }
    if reported > 0 {
        ctx.count_n("prefix_mismatches", reported);
    }
}

#[allow(dead_code)]
pub fn mods_of(spec: &SetSpec, mode: GameMode) -> GameMods {
    spec.mods.to_gamemods(mode)
}
