//! C13 — accuracy-driven hit results are the closest achievable to the target.
//!
//! Exhaustive over small attribute shapes with a brute-force oracle (all distributions of hit
//! results over the same objects with the same misses, judged with the crate's own public
//! `*ScoreState::accuracy`), sampled for larger shapes.

use rosu_pp::{
    any::{DifficultyAttributes, ScoreState},
    Beatmap, Difficulty, Performance,
    catch::{CatchDifficultyAttributes, CatchScoreState},
    mania::{ManiaDifficultyAttributes, ManiaScoreState},
    model::mode::GameMode,
    osu::{OsuDifficultyAttributes, OsuScoreOrigin, OsuScoreState},
    taiko::{TaikoDifficultyAttributes, TaikoScoreState},
};

use crate::{
    gen::{self, Mix},
    maps::{dump, mode_name, Domain},
    props::c12::{self, In},
    rng::{hash_str, Rng},
    runner::{api as bracket, guard, Ctx, Tier},
};

fn osu_shape(c: u32, s: u32, t: u32, sp: u32) -> DifficultyAttributes {
    DifficultyAttributes::Osu(OsuDifficultyAttributes {
        aim: 2.0,
        aim_difficult_slider_count: f64::from(s) * 0.3,
        speed: 1.8,
        flashlight: 1.0,
        slider_factor: 0.98,
        speed_note_count: f64::from(c) * 0.4,
        aim_difficult_strain_count: 1.5,
        speed_difficult_strain_count: 1.5,
        ar: 9.0,
        great_hit_window: 25.0,
        ok_hit_window: 70.0,
        meh_hit_window: 110.0,
        hp: 5.0,
        n_circles: c,
        n_sliders: s,
        n_large_ticks: t,
        n_spinners: sp,
        stars: 4.0,
        max_combo: c + sp + 2 * s + t,
    })
}

fn taiko_shape(n: u32) -> DifficultyAttributes {
    DifficultyAttributes::Taiko(TaikoDifficultyAttributes {
        stamina: 2.0,
        rhythm: 0.5,
        color: 1.0,
        reading: 0.2,
        great_hit_window: 25.0,
        ok_hit_window: 60.0,
        mono_stamina_factor: 0.3,
        stars: 4.0,
        max_combo: n,
        is_convert: false,
    })
}

fn catch_shape(f: u32, d: u32, t: u32) -> DifficultyAttributes {
    DifficultyAttributes::Catch(CatchDifficultyAttributes {
        stars: 4.0,
        ar: 9.0,
        n_fruits: f,
        n_droplets: d,
        n_tiny_droplets: t,
        is_convert: false,
    })
}

fn mania_shape(n: u32, h: u32) -> DifficultyAttributes {
    DifficultyAttributes::Mania(ManiaDifficultyAttributes {
        stars: 4.0,
        n_objects: n,
        n_hold_notes: h,
        max_combo: n + 3 * h,
        is_convert: false,
    })
}

/// The finite space of small shapes that is enumerated completely.
pub fn small_shapes(tier: Tier) -> Vec<(GameMode, DifficultyAttributes)> {
    let max_obj: u32 = if tier == Tier::Thorough { 8 } else { 5 };
    let mut v = Vec::new();
    for c in 0..=max_obj {
        for s in 0..=3u32.min(max_obj - c) {
            for sp in 0..=(max_obj - c - s).min(2) {
                for t in 0..=(if s == 0 { 0 } else { 2 }) {
                    v.push((GameMode::Osu, osu_shape(c, s, t, sp)));
                }
            }
        }
    }
    let max_taiko = if tier == Tier::Thorough { 12 } else { 8 };
    for n in 0..=max_taiko {
        v.push((GameMode::Taiko, taiko_shape(n)));
    }
    let (mf, md, mt) = if tier == Tier::Thorough { (5, 3, 6) } else { (3, 2, 4) };
    for f in 0..=mf {
        for d in 0..=md {
            for t in 0..=mt {
                v.push((GameMode::Catch, catch_shape(f, d, t)));
            }
        }
    }
    let (mn, mh) = if tier == Tier::Thorough { (7, 3) } else { (6, 2) };
    for n in 0..=mn {
        for h in 0..=mh.min(n) {
            v.push((GameMode::Mania, mania_shape(n, h)));
        }
    }
    v
}

pub fn case_count(tier: Tier) -> u64 {
    small_shapes(tier).len() as u64
}

fn sampled_shape(rng: &mut Rng) -> (GameMode, DifficultyAttributes) {
    match rng.below(4) {
        0 => {
            let c = rng.below(500) as u32;
            let s = rng.below(100) as u32;
            let t = if s == 0 { 0 } else { rng.below(u64::from(s) * 2 + 1) as u32 };
            (GameMode::Osu, osu_shape(c, s, t, rng.below(3) as u32))
        }
        1 => (GameMode::Taiko, taiko_shape(rng.below(600) as u32)),
        2 => (
            GameMode::Catch,
            catch_shape(rng.below(400) as u32, rng.below(150) as u32, rng.below(300) as u32),
        ),
        _ => {
            let n = rng.below(40) as u32;
            (GameMode::Mania, mania_shape(n, rng.below(u64::from(n) / 2 + 1) as u32))
        }
    }
}

/// All accuracies (as fractions) achievable with `misses` on the shape, given the auxiliary hits
/// of the generated state. Also used as the brute-force oracle.
fn achievable(attrs: &DifficultyAttributes, i: &In, misses: u32, out: &ScoreState) -> Vec<f64> {
    let mut v = Vec::new();
    match attrs {
        DifficultyAttributes::Osu(a) => {
            let n = a.n_objects().saturating_sub(misses);
            let lazer = i.lazer.unwrap_or(true);
            let origin = match (lazer, c12::cl_effective(GameMode::Osu, i)) {
                (false, _) => OsuScoreOrigin::Stable,
                (true, false) => OsuScoreOrigin::WithSliderAcc {
                    max_large_ticks: a.n_large_ticks,
                    max_slider_ends: a.n_sliders,
                },
                (true, true) => OsuScoreOrigin::WithoutSliderAcc {
                    max_large_ticks: a.n_sliders + a.n_large_ticks,
                    max_small_ticks: a.n_sliders,
                },
            };
            for n300 in 0..=n {
                for n100 in 0..=(n - n300) {
                    let s = OsuScoreState {
                        max_combo: 0,
                        large_tick_hits: out.osu_large_tick_hits,
                        small_tick_hits: out.osu_small_tick_hits,
                        slider_end_hits: out.slider_end_hits,
                        n300,
                        n100,
                        n50: n - n300 - n100,
                        misses,
                    };
                    v.push(s.accuracy(origin));
                }
            }
        }
        DifficultyAttributes::Taiko(a) => {
            let n = a.max_combo.saturating_sub(misses);
            for n300 in 0..=n {
                v.push(
                    TaikoScoreState {
                        max_combo: 0,
                        n300,
                        n100: n - n300,
                        misses,
                    }
                    .accuracy(),
                );
            }
        }
        DifficultyAttributes::Catch(a) => {
            let caught = (a.n_fruits + a.n_droplets).saturating_sub(misses);
            for t in 0..=a.n_tiny_droplets {
                // the accuracy only depends on fruits + droplets, not on their split
                let f = caught.min(a.n_fruits);
                v.push(
                    CatchScoreState {
                        max_combo: 0,
                        fruits: f,
                        droplets: caught - f,
                        tiny_droplets: t,
                        tiny_droplet_misses: a.n_tiny_droplets - t,
                        misses,
                    }
                    .accuracy(),
                );
            }
        }
        DifficultyAttributes::Mania(a) => {
            let classic = c12::classic(GameMode::Mania, i);
            let total = a.n_objects + if classic { 0 } else { a.n_hold_notes };
            let n = total.saturating_sub(misses);
            for n320 in 0..=n {
                for n300 in 0..=(n - n320) {
                    for n200 in 0..=(n - n320 - n300) {
                        for n100 in 0..=(n - n320 - n300 - n200) {
                            v.push(
                                ManiaScoreState {
                                    n320,
                                    n300,
                                    n200,
                                    n100,
                                    n50: n - n320 - n300 - n200 - n100,
                                    misses,
                                }
                                .accuracy(classic),
                            );
                        }
                    }
                }
            }
        }
    }
    v
}

/// Sums of `s` hit-result weights from {1, 2, 4, 6} (n50, n100, n200, n300 in units of 10): every integer in [s, 6s] except
/// 6s-1 and 6s-3 (an odd sum needs a 1, and the remaining s-1 items reach at most 6s-6).
fn mania_sum_achievable(s: u32, v: i64) -> bool {
    let s = i64::from(s);
    if s == 0 {
        return v == 0;
    }
    v >= s && v <= 6 * s && v != 6 * s - 1 && v != 6 * s - 3
}

/// Exact smallest |accuracy - target| over ALL hit-result distributions of a mania shape with `total` judgements of which
/// `misses` are misses - for shapes far too large to enumerate. The numerator of the crate's accuracy formula is
/// pw*n320 + 10*(6*n300 + 4*n200 + 2*n100 + n50) with pw = 61 (lazer) or 60 (classic): for every n320 the closest reachable
/// value of the second term is found directly. Checked against full enumeration on small shapes once per process.
fn mania_best_distance(total: u32, misses: u32, classic: bool, target: f64) -> f64 {
    let t = total.saturating_sub(misses);
    if total == 0 {
        return (0.0f64 - target).abs();
    }
    let pw: u32 = if classic { 60 } else { 61 };
    let den = f64::from(pw * total);
    let want = target * den;
    let mut best = f64::INFINITY;
    for a in 0..=t {
        let s = t - a;
        let x = (want - f64::from(pw * a)) / 10.0;
        let base = x.floor() as i64;
        let mut cands: Vec<i64> = (-4..=5).map(|d| base + d).collect();
        let s64 = i64::from(s);
        cands.extend([s64, 6 * s64, 6 * s64 - 2, 6 * s64 - 4, 0]);
        for v in cands {
            if !mania_sum_achievable(s, v) {
                continue;
            }
            let num = pw * a + 10 * (v as u32);
            let acc = f64::from(num) / f64::from(pw * total);
            let d = (acc - target).abs();
            if d < best {
                best = d;
            }
        }
        if classic {
            // n320 and n300 weigh the same: one pass covers every split
            break;
        }
    }
    best
}

fn mania_oracle_self_check() {
    static DONE: std::sync::OnceLock<()> = std::sync::OnceLock::new();
    DONE.get_or_init(|| {
        for n in 0..=9u32 {
            for misses in 0..=n.min(2) {
                for classic in [false, true] {
                    let attrs = mania_shape(n, 0);
                    let i = In {
                        acc: Some(0.0),
                        combo: None,
                        misses: Some(misses),
                        r: vec![None; 5],
                        worst: false,
                        lazer: Some(!classic),
                        cl: false,
                        cl_setting: None,
                        lazer_via_setter: false,
                        cl_repr: 0,
                        ticks: [None; 3],
                        passed: None,
                    };
                    let all = achievable(&attrs, &i, misses, &ScoreState::default());
                    for k in 0..=40 {
                        let target = f64::from(k) / 40.0 + 0.003;
                        let brute = all.iter().map(|a| (a - target).abs()).fold(f64::INFINITY, f64::min);
                        let closed = mania_best_distance(n, misses, classic, target);
                        assert!(
                            (brute - closed).abs() <= 1e-15 || n == misses,
                            "harness bug: closed-form mania oracle {closed:e} vs enumeration {brute:e} (n={n} misses={misses} classic={classic} target={target})"
                        );
                    }
                }
            }
        }
    });
}

fn out_accuracy(attrs: &DifficultyAttributes, i: &In, out: &ScoreState) -> f64 {
    match attrs {
        DifficultyAttributes::Osu(a) => {
            let lazer = i.lazer.unwrap_or(true);
            let origin = match (lazer, c12::cl_effective(GameMode::Osu, i)) {
                (false, _) => OsuScoreOrigin::Stable,
                (true, false) => OsuScoreOrigin::WithSliderAcc {
                    max_large_ticks: a.n_large_ticks,
                    max_slider_ends: a.n_sliders,
                },
                (true, true) => OsuScoreOrigin::WithoutSliderAcc {
                    max_large_ticks: a.n_sliders + a.n_large_ticks,
                    max_small_ticks: a.n_sliders,
                },
            };
            let s: OsuScoreState = out.clone().into();
            s.accuracy(origin)
        }
        DifficultyAttributes::Taiko(_) => {
            let s: TaikoScoreState = out.clone().into();
            s.accuracy()
        }
        DifficultyAttributes::Catch(_) => {
            let s: CatchScoreState = out.clone().into();
            s.accuracy()
        }
        DifficultyAttributes::Mania(_) => {
            let s: ManiaScoreState = out.clone().into();
            s.accuracy(c12::classic(GameMode::Mania, i))
        }
    }
}

/// A shape that differs from `attrs` in one count only (`sel` picks which).
fn sibling_shape(attrs: &DifficultyAttributes, sel: u64) -> DifficultyAttributes {
    match attrs {
        DifficultyAttributes::Osu(a) => match sel % 4 {
            0 if a.n_sliders > 0 => osu_shape(a.n_circles, a.n_sliders, a.n_large_ticks + 1, a.n_spinners),
            1 if a.n_sliders > 0 => osu_shape(a.n_circles + 1, a.n_sliders - 1, a.n_large_ticks, a.n_spinners),
            2 => osu_shape(a.n_circles + 1, a.n_sliders, a.n_large_ticks, a.n_spinners),
            _ => osu_shape(a.n_circles.saturating_sub(1), a.n_sliders + 1, a.n_large_ticks, a.n_spinners),
        },
        DifficultyAttributes::Taiko(a) => taiko_shape(if sel % 2 == 0 { a.max_combo + 1 } else { a.max_combo.saturating_sub(1) }),
        DifficultyAttributes::Catch(a) => match sel % 3 {
            0 => catch_shape(a.n_fruits, a.n_droplets, a.n_tiny_droplets + 1),
            1 if a.n_fruits > 0 => catch_shape(a.n_fruits - 1, a.n_droplets + 1, a.n_tiny_droplets),
            _ => catch_shape(a.n_fruits + 1, a.n_droplets, a.n_tiny_droplets),
        },
        DifficultyAttributes::Mania(a) => match sel % 3 {
            0 if a.n_hold_notes < a.n_objects => mania_shape(a.n_objects, a.n_hold_notes + 1),
            1 if a.n_hold_notes > 0 => mania_shape(a.n_objects, a.n_hold_notes - 1),
            0 | 1 if a.n_hold_notes > 0 => mania_shape(a.n_objects, 0),
            _ => mania_shape(a.n_objects + 1, a.n_hold_notes),
        },
    }
}

fn check_one(ctx: &mut Ctx, mode: GameMode, attrs: &DifficultyAttributes, i: &In, grid_kind: &str) -> bool {
    // One configuration in three: the call that is judged is directly preceded (same thread) by the *same* request for a
    // shape that differs in one count only. The neighbour's own answer is judged when it is the current shape; here only the
    // history matters (a result remembered under too coarse a key is handed to the next caller).
    let sel = hash_str(&format!("{i:?}"));
    if sel % 3 == 0 {
        let sib = sibling_shape(attrs, sel / 3);
        let _ = guard(|| {
            let mut b = c12::build(&sib, mode, i);
            b.generate_state()
        });
        ctx.count("neighbour_calls_before_judged_call");
    }
    check_one_with(ctx, mode, attrs, i, grid_kind, &|i| Some(c12::build(attrs, mode, i)))
}

/// `mk` creates the configured builder (None: this entry path is not available, e.g. a conversion error).
fn check_one_with<'m>(
    ctx: &mut Ctx,
    mode: GameMode,
    attrs: &DifficultyAttributes,
    i: &In,
    grid_kind: &str,
    mk: &dyn Fn(&In) -> Option<Performance<'m>>,
) -> bool {
    let mname = mode_name(mode);
    let r = guard(|| {
        let mut b = mk(i)?;
        Some(bracket("generate_state", || b.generate_state()))
    });
    let r = match r {
        Ok(None) => return true,
        Ok(Some(o)) => Ok(o),
        Err(p) => Err(p),
    };
    ctx.eval();
    let out = match r {
        Ok(o) => o,
        Err(p) => {
            ctx.violation(
                &format!("C13/{mname}/panic/{}", p.sig()),
                &format!("{} at {}\n attrs={}\n input={i:?}", p.msg, p.loc, dump(attrs)),
                None,
            );
            return false;
        }
    };
    let budget = c12::budget(attrs);
    let want_m = i.misses.unwrap_or(0).min(budget);
    let origin_name = match (i.lazer.unwrap_or(true), c12::cl_effective(mode, i)) {
        (false, _) => "stable",
        (true, false) => "lazer",
        (true, true) => "lazer+CL",
    };
    let witness = |msg: &str| format!("{msg}\n attrs={}\n input={i:?}\n generated={out:?}", dump(attrs));
    if out.misses != want_m {
        ctx.violation(&format!("C13/{mname}/misses/{origin_name}"), &witness(&format!("misses out={} expected {want_m}", out.misses)), None);
        return false;
    }
    // results add up
    let res = c12::results_of(mode, &out);
    let (sum, expected_sum) = match attrs {
        DifficultyAttributes::Catch(a) => (res[0] + res[1] + out.misses, a.n_fruits + a.n_droplets),
        DifficultyAttributes::Mania(a) => (
            res.iter().sum::<u32>() + out.misses,
            a.n_objects + if c12::classic(mode, i) { 0 } else { a.n_hold_notes },
        ),
        _ => (res.iter().sum::<u32>() + out.misses, budget),
    };
    if sum != expected_sum {
        ctx.violation(&format!("C13/{mname}/sum/{origin_name}"), &witness(&format!("results add up to {sum}, expected {expected_sum}")), None);
        return false;
    }
    let target = i.acc.unwrap().clamp(0.0, 100.0) / 100.0;
    let got = out_accuracy(attrs, i, &out);
    let min_dist = match attrs {
        DifficultyAttributes::Mania(a) if expected_sum > 60 => {
            let _ = a;
            mania_oracle_self_check();
            mania_best_distance(expected_sum, want_m, c12::classic(mode, i), target)
        }
        _ => achievable(attrs, i, want_m, &out).iter().map(|a| (a - target).abs()).fold(f64::INFINITY, f64::min),
    };
    let dist = (got - target).abs();
    if dist > min_dist + 1e-12 {
        let prio = if i.worst { "worst" } else { "best" };
        ctx.violation(
            &format!("C13/{mname}/not-closest/{origin_name}/{prio}/{grid_kind}"),
            &witness(&format!(
                "target accuracy {target} -> generated accuracy {got} (distance {dist:e}); the closest achievable distribution has distance {min_dist:e}"
            )),
            None,
        );
        return false;
    }
    true
}

pub fn case(ctx: &mut Ctx, idx: u64) {
    let mut rng = Rng::for_case(ctx.seed, "C13", idx);
    let shapes = small_shapes(ctx.tier);
    let exhaustive = (idx as usize) < shapes.len();
    let (mode, attrs) = if exhaustive { shapes[idx as usize].clone() } else { sampled_shape(&mut rng) };
    let mname = mode_name(mode);
    ctx.count(&format!("mode:{mname}"));
    ctx.count(if exhaustive { "class:exhaustive-shape" } else { "class:sampled-shape" });
    let budget = c12::budget(&attrs);
    let k = c12::n_results(mode);
    let origins: &[(Option<bool>, bool)] = match mode {
        GameMode::Osu | GameMode::Mania => &[(Some(false), false), (Some(true), false), (Some(true), true), (None, false)],
        _ => &[(None, false)],
    };
    let miss_values: Vec<Option<u32>> = if exhaustive {
        let mut v: Vec<Option<u32>> = vec![None];
        v.extend((0..=budget + 1).map(Some));
        v
    } else {
        vec![None, Some(0), Some(rng.below(u64::from(budget) + 2) as u32), Some(rng.below(u64::from(budget) / 10 + 2) as u32)]
    };
    let mut n_cfg = 0u64;
    for &(lazer, cl) in origins {
        for worst in [false, true] {
            if mode == GameMode::Catch && worst {
                continue;
            }
            for &misses in &miss_values {
                let base = In {
                    acc: Some(0.0),
                    combo: None,
                    misses,
                    r: vec![None; k],
                    worst,
                    lazer,
                    cl,
                    cl_setting: None,
                    lazer_via_setter: n_cfg % 2 == 1,
                    cl_repr: (n_cfg % 3) as u8,
                    ticks: [None; 3],
                    passed: None,
                };
                // grid of target accuracies
                let mut targets: Vec<(f64, &str)> = Vec::new();
                if exhaustive {
                    let mut g = 0;
                    while g <= 400 {
                        targets.push((f64::from(g) * 0.25, "grid"));
                        g += 1;
                    }
                } else {
                    for _ in 0..24 {
                        targets.push((rng.frange(0.0, 100.0), "grid"));
                    }
                    targets.push((100.0, "grid"));
                    targets.push((0.0, "grid"));
                }
                // every exactly achievable accuracy +- epsilon (needs the auxiliary hits of a generated state)
                let probe = guard(|| {
                    let mut b = c12::build(&attrs, mode, &base);
                    b.generate_state()
                });
                if let Ok(probe) = probe {
                    let want_m = misses.unwrap_or(0).min(budget);
                    let mut ach = achievable(&attrs, &base, want_m, &probe);
                    ach.sort_by(f64::total_cmp);
                    ach.dedup();
                    if !exhaustive && ach.len() > 40 {
                        let step = ach.len() / 40;
                        ach = ach.into_iter().step_by(step.max(1)).collect();
                    }
                    for a in ach {
                        targets.push((a * 100.0, "achievable"));
                        targets.push((a * 100.0 + 1e-7, "achievable+eps"));
                        targets.push((a * 100.0 - 1e-7, "achievable-eps"));
                    }
                }
                for (t, kind) in targets {
                    let mut i = base.clone();
                    i.acc = Some(t);
                    n_cfg += 1;
                    if !check_one(ctx, mode, &attrs, &i, kind) {
                        // one witness per (shape, origin, priority, misses) is enough
                        break;
                    }
                }
            }
        }
    }
    if budget >= 1 {
        ctx.nontrivial(hash_str(&dump(&attrs)));
    }
    ctx.count_n("configurations", n_cfg);
    ctx.sample(|| format!("mode={mname} exhaustive={exhaustive} attrs={} configurations={n_cfg}", dump(&attrs)));
    if !exhaustive {
        via_map(ctx, &mut rng);
        if rng.below(8) == 0 {
            large_mania(ctx, &mut rng);
        }
    }
}

/// A mania shape with a thousand or more judgements, where neighbouring achievable accuracies are closer than 1e-5 to each other:
/// "close enough" and "closest" are different things only here. Judged against the closed-form oracle.
fn large_mania(ctx: &mut Ctx, rng: &mut Rng) {
    let n = 700 + rng.below(900) as u32;
    let h = rng.below(400) as u32;
    let attrs = mania_shape(n, h.min(n));
    ctx.count("class:large-mania-shape");
    let mut n_cfg = 0u64;
    for (lazer, cl) in [(Some(true), false), (Some(false), false), (Some(true), true)] {
        for worst in [false, true] {
            for misses in [None, Some(rng.below(6) as u32)] {
                for _ in 0..2 {
                    let i = In {
                        acc: Some(rng.frange(55.0, 100.0)),
                        combo: None,
                        misses,
                        r: vec![None; 5],
                        worst,
                        lazer,
                        cl,
                        cl_setting: None,
                        lazer_via_setter: n_cfg % 2 == 1,
                        cl_repr: (n_cfg % 3) as u8,
                        ticks: [None; 3],
                        passed: None,
                    };
                    n_cfg += 1;
                    if !check_one(ctx, GameMode::Mania, &attrs, &i, "large") {
                        break;
                    }
                }
            }
        }
    }
    ctx.count_n("configurations", n_cfg);
}

/// The same oracle for a play that is specified on a builder created from an osu!standard *map* and only afterwards
/// switched to the target mode (`try_mode` / `mode_or_ignore`): accuracy and misses are set before the conversion.
fn via_map(ctx: &mut Ctx, rng: &mut Rng) {
    let mx = Mix {
        realistic: true,
        max_objects: 24,
        fixtures: true,
        mode: Some(0),
        ..Mix::default()
    };
    let Some((mc, map)) = gen::gen_domain_map(rng, &mx, Domain::Realistic) else { return };
    if map.mode != GameMode::Osu || map.hit_objects.is_empty() {
        return;
    }
    let mode = *rng.pick(&[GameMode::Osu, GameMode::Taiko, GameMode::Catch, GameMode::Mania]);
    let mname = mode_name(mode);
    let Ok(Ok(conv)) = guard(|| map.convert_ref(mode, &0u32.into()).map(std::borrow::Cow::into_owned)) else { return };
    let (lazer, cl) = match mode {
        GameMode::Osu | GameMode::Mania => *rng.pick(&[(Some(false), false), (Some(true), false), (Some(true), true), (None, false)]),
        _ => (None, false),
    };
    // attributes of the converted map for the brute-force oracle (CL / lazer do not influence the counts)
    let Ok(attrs) = guard(|| Difficulty::new().calculate(&conv)) else { return };
    let budget = c12::budget(&attrs);
    if budget == 0 || budget > 60 {
        return;
    }
    let use_ignore = rng.chance(0.5);
    let entry = if use_ignore { "via-mode_or_ignore" } else { "via-try_mode" };
    ctx.count(&format!("entry:{entry}:{mname}"));
    let map_ref: &Beatmap = &map;
    let mk = move |i: &In| -> Option<Performance<'_>> {
        let p = c12::build_on(Performance::new(map_ref), mode, i);
        if use_ignore {
            Some(p.mode_or_ignore(mode))
        } else {
            p.try_mode(mode).ok()
        }
    };
    for _ in 0..3 {
        let some_m = rng.below(u64::from(budget) + 2) as u32;
        let misses = *rng.pick(&[None, Some(0), Some(some_m), Some(1)]);
        let base = In {
            acc: Some(0.0),
            combo: None,
            misses,
            r: vec![None; c12::n_results(mode)],
            worst: mode != GameMode::Catch && rng.chance(0.5),
            lazer,
            cl,
            cl_setting: if mode == GameMode::Osu && cl && lazer != Some(false) { *rng.pick(&[None, Some(true), Some(false)]) } else { None },
            lazer_via_setter: rng.chance(0.5),
            cl_repr: rng.below(3) as u8,
            ticks: [None; 3],
            passed: None,
        };
        let mut targets: Vec<f64> = (0..6).map(|_| rng.frange(0.0, 100.0)).collect();
        targets.push(100.0);
        targets.push(rng.range(80, 99) as f64);
        if let Ok(Some(probe)) = guard(|| mk(&base).map(|mut b| b.generate_state())) {
            let want_m = misses.unwrap_or(0).min(budget);
            let mut ach = achievable(&attrs, &base, want_m, &probe);
            ach.sort_by(f64::total_cmp);
            ach.dedup();
            for _ in 0..6.min(ach.len()) {
                let a = *rng.pick(&ach);
                targets.push(a * 100.0);
                targets.push(a * 100.0 + 1e-7);
            }
        }
        for t in targets {
            let mut i = base.clone();
            i.acc = Some(t);
            ctx.count("configurations_via_map");
            if !check_one_with(ctx, mode, &attrs, &i, entry, &mk) {
                ctx.sample(|| format!("via-map witness src={} mode={mname}", mc.tag));
                return;
            }
        }
    }
}
