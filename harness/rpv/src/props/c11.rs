//! C11 — unsafe code never performs an invalid memory access.
//!
//! The workload below is small enough for Miri and is also run natively (release, debug with
//! the `has_zero` flag and debug assertions live, ASan, valgrind) at larger scale. The
//! StrainsVec part additionally compares against a plain `Vec<f64>` reference model.

use std::str::FromStr;

use rosu_pp::{model::mode::GameMode, verif_hooks::StrainsVec, Beatmap, Difficulty, GradualDifficulty};

use crate::{
    gen::{self, Mix},
    maps::{self, dump, mode_name},
    osu::{self, Profile},
    rng::{hash_str, Rng},
    runner::{api as bracket, guard, Ctx},
    sets::{self},
};

/// What the compact list is documented to store for a pushed value: positive values as is,
/// everything else (zero, negative zero, negatives, negative NaN) as zero.
fn model_value(x: f64) -> f64 {
    if x.to_bits() > 0 && x.is_sign_positive() {
        x
    } else {
        0.0
    }
}

fn bits(v: &[f64]) -> Vec<u64> {
    v.iter().map(|x| x.to_bits()).collect()
}

/// Random operation sequence respecting the type's `unsafe` contracts, compared against a
/// `Vec<f64>` model after every step. Returns Err(description) on a model mismatch.
pub fn strains_vec_model(rng: &mut Rng, max_len: usize) -> Result<u64, String> {
    let cap = rng.usize_below(8);
    let mut v = StrainsVec::with_capacity(cap);
    let mut m: Vec<f64> = Vec::new();
    let n = rng.usize_below(max_len + 1);
    let mut steps = 0u64;
    for _ in 0..n {
        let x = match rng.below(14) {
            0 => 0.0,
            1 => -0.0,
            2 => -1.5,
            3 => f64::MIN_POSITIVE / 4.0, // subnormal
            4 => f64::NAN,
            5 => -f64::NAN,
            6 => f64::INFINITY,
            7 => f64::NEG_INFINITY,
            8 => -f64::MIN_POSITIVE / 8.0,
            9 | 10 => 0.0,
            _ => rng.frange(0.0, 100.0),
        };
        let reps = if rng.chance(0.2) { 1 + rng.usize_below(6) } else { 1 };
        for _ in 0..reps {
            v.push(x);
            m.push(model_value(x));
        }
        steps += 1;
        if v.len() != m.len() {
            return Err(format!("len() = {} after {} pushes", v.len(), m.len()));
        }
        // occasionally observe mid-way
        if rng.chance(0.15) {
            let it: Vec<f64> = v.iter().collect();
            if bits(&it) != bits(&m) {
                return Err(format!("iter() differs from the model after pushes: {:?} vs {:?}", it, m));
            }
            let it = v.iter();
            if it.len() != m.len() {
                return Err(format!("iter().len() = {} model {}", it.len(), m.len()));
            }
        }
    }
    // observers
    let s = v.sum();
    let ms: f64 = m.iter().copied().filter(|x| x.to_bits() != 0).sum::<f64>();
    let same_sum = s.to_bits() == ms.to_bits() || (s == 0.0 && ms == 0.0) || (s.is_nan() && ms.is_nan());
    if !same_sum {
        return Err(format!("sum() = {s:?}, model {ms:?} for {m:?}"));
    }
    let it: Vec<f64> = v.iter().collect();
    if bits(&it) != bits(&m) {
        return Err(format!("iter() differs from the model: {it:?} vs {m:?}"));
    }
    // partially consumed iterator keeps an exact length
    {
        let mut it = v.iter();
        let k = rng.usize_below(m.len() + 1);
        for _ in 0..k {
            it.next();
        }
        if it.len() != m.len() - k || it.size_hint() != (m.len() - k, Some(m.len() - k)) {
            return Err(format!("iter().len() after {k} items = {} model {}", it.len(), m.len() - k));
        }
    }
    let expanded = v.clone().into_vec();
    if bits(&expanded) != bits(&m) {
        return Err(format!("into_vec() differs from the model: {expanded:?} vs {m:?}"));
    }
    steps += 4;
    // one of the three documented consumption paths
    let mut sorted_model: Vec<f64> = m.iter().copied().filter(|x| x.to_bits() != 0).collect();
    match rng.below(4) {
        0 => {
            let mut c = v.clone();
            c.retain_non_zero_and_sort();
            sorted_model.sort_by(|a, b| b.total_cmp(a));
            if c.len() != sorted_model.len() {
                return Err(format!("len() after retain_non_zero = {}, model {}", c.len(), sorted_model.len()));
            }
            // SAFETY: zeros were removed right before (documented contract)
            let t = unsafe { c.transmute_into_vec() };
            if bits(&t) != bits(&sorted_model) {
                return Err(format!("retain+sort+transmute differs: {t:?} vs {sorted_model:?}"));
            }
        }
        1 => {
            let mut c = v.clone();
            let f = 0.5 + rng.unit();
            let mut cnt = 0;
            {
                let it = c.sorted_non_zero_iter_mut();
                if it.len() != sorted_model.len() {
                    return Err(format!("sorted_non_zero_iter_mut().len() = {}, model {}", it.len(), sorted_model.len()));
                }
                for x in it {
                    *x *= f;
                    cnt += 1;
                }
            }
            sorted_model.sort_by(|a, b| b.total_cmp(a));
            for x in &mut sorted_model {
                *x *= f;
            }
            c.sort_desc();
            sorted_model.sort_by(|a, b| b.total_cmp(a));
            // SAFETY: zeros were removed by sorted_non_zero_iter_mut, rescaling was positive
            let t = unsafe { c.transmute_into_vec() };
            if cnt != sorted_model.len() || bits(&t) != bits(&sorted_model) {
                return Err(format!("iter_mut rescale path differs: {t:?} vs {sorted_model:?}"));
            }
        }
        2 => {
            let mut c = v.clone();
            c.retain_non_zero();
            if c.len() != sorted_model.len() {
                return Err(format!("len() after retain_non_zero = {}, model {}", c.len(), sorted_model.len()));
            }
            let it: Vec<f64> = c.iter().collect();
            if bits(&it) != bits(&sorted_model) {
                return Err(format!("iter() after retain_non_zero differs: {it:?} vs {sorted_model:?}"));
            }
            let e = c.into_vec();
            if bits(&e) != bits(&sorted_model) {
                return Err(format!("into_vec() after retain_non_zero differs: {e:?} vs {sorted_model:?}"));
            }
        }
        _ => {
            // clone independence
            let mut c = v.clone();
            c.push(1.0);
            c.push(0.0);
            if v.len() != m.len() || c.len() != m.len() + 2 {
                return Err("clone shares state with the original".into());
            }
            drop(c);
            let it: Vec<f64> = v.iter().collect();
            if bits(&it) != bits(&m) {
                return Err("original changed after mutating a clone".into());
            }
        }
    }
    Ok(steps + 2)
}

/// Free-form operation sequences ("all operation sequences on the strain list"): every mutating operation the type
/// offers, in any order its `unsafe`/debug contracts allow, with a random observer (len, sum, iter, partial iter,
/// clone + into_vec) after every step, all against the plain `Vec<f64>` model.
pub fn strains_vec_program(rng: &mut Rng, max_len: usize) -> Result<u64, String> {
    let mut v = StrainsVec::with_capacity(rng.usize_below(8));
    let mut m: Vec<f64> = Vec::new();
    let mut trace: Vec<String> = Vec::new();
    let mut steps = 0u64;
    let n_ops = 4 + rng.usize_below(24);
    let nonzero = |m: &Vec<f64>| m.iter().all(|x| x.to_bits() != 0);
    for _ in 0..n_ops {
        match rng.below(10) {
            0..=4 => {
                let k = 1 + rng.usize_below(max_len.clamp(1, 12));
                for _ in 0..k {
                    let x = match rng.below(10) {
                        0 | 1 => 0.0,
                        2 => -0.0,
                        3 => -2.5,
                        4 => f64::MIN_POSITIVE,
                        5 => f64::MIN_POSITIVE / 4.0,
                        _ => rng.frange(0.0, 50.0),
                    };
                    v.push(x);
                    m.push(model_value(x));
                }
                trace.push(format!("push x{k}"));
            }
            5 => {
                v.retain_non_zero();
                m.retain(|x| x.to_bits() != 0);
                trace.push("retain_non_zero".into());
            }
            6 => {
                v.retain_non_zero_and_sort();
                m.retain(|x| x.to_bits() != 0);
                m.sort_by(|a, b| b.total_cmp(a));
                trace.push("retain_non_zero_and_sort".into());
            }
            7 => {
                if nonzero(&m) {
                    v.sort_desc();
                    m.sort_by(|a, b| b.total_cmp(a));
                    trace.push("sort_desc".into());
                }
            }
            _ => {
                // write through the mutable iterator (first k values, positive factor: values stay positive)
                m.retain(|x| x.to_bits() != 0);
                m.sort_by(|a, b| b.total_cmp(a));
                let k = rng.usize_below(m.len() + 2);
                let f = *rng.pick(&[0.75, 0.5, 1.25, 2.0, 0.9]);
                let it = v.sorted_non_zero_iter_mut();
                if it.len() != m.len() {
                    return Err(format!("sorted_non_zero_iter_mut().len() = {}, model {} after {trace:?}", it.len(), m.len()));
                }
                for x in it.take(k) {
                    *x *= f;
                }
                for x in m.iter_mut().take(k) {
                    *x *= f;
                }
                trace.push(format!("iter_mut.take({k}) *= {f}"));
                if !nonzero(&m) {
                    // a subnormal was scaled to zero: outside the type's contract, stop here
                    return Ok(steps);
                }
            }
        }
        steps += 1;
        // observer
        let what = rng.below(5);
        let ok = match what {
            0 => v.len() == m.len(),
            1 => {
                let s = v.sum();
                let ms: f64 = m.iter().copied().filter(|x| x.to_bits() != 0).sum::<f64>();
                s.to_bits() == ms.to_bits() || (s == 0.0 && ms == 0.0)
            }
            2 => bits(&v.iter().collect::<Vec<f64>>()) == bits(&m),
            3 => {
                let mut it = v.iter();
                let k = rng.usize_below(m.len() + 1);
                for _ in 0..k {
                    it.next();
                }
                it.len() == m.len() - k
            }
            _ => bits(&v.clone().into_vec()) == bits(&m),
        };
        if !ok {
            let name = ["len", "sum", "iter", "iter-len", "into_vec"][what as usize];
            return Err(format!("{name} differs from the plain list after {trace:?}: list has {:?}, model {m:?}, sum()={:?}", v.iter().collect::<Vec<f64>>(), v.sum()));
        }
    }
    // terminal conversion (half of the lists that still contain zeros are cleaned first, so that both conversions also see
    // lists without any zero entry - typically with spare capacity left from the pushes)
    if !nonzero(&m) && rng.chance(0.5) {
        v.retain_non_zero();
        m.retain(|x| x.to_bits() != 0);
        trace.push("retain_non_zero".into());
    }
    let t = if nonzero(&m) && rng.chance(0.5) {
        // SAFETY: the model says there is no zero left (documented contract)
        unsafe { v.transmute_into_vec() }
    } else {
        v.into_vec()
    };
    if bits(&t) != bits(&m) {
        return Err(format!("final conversion differs after {trace:?}: {t:?} vs {m:?}"));
    }
    Ok(steps + 1)
}

fn tiny_map(rng: &mut Rng) -> (String, Option<Beatmap>) {
    let p = *rng.pick(&[Profile::Tiny, Profile::NonHitFirst, Profile::Editor, Profile::Holds, Profile::Spinners]);
    let f = osu::generate(
        rng,
        &osu::GenOpts {
            profile: p,
            mode: None,
            max_objects: 7,
        },
    );
    let text = f.render();
    let map = maps::decode(&text).filter(|m| maps::out_of_domain(m, maps::Domain::Realistic, 40).is_none());
    (text, map)
}

/// Lifetimes of gradual calculators: move into Box / Vec, swap, partial consumption, drop at any
/// point, interleaved instances (and another thread when the `sync` feature is on).
fn gradual_lifetimes(rng: &mut Rng, map: &Beatmap, mode: GameMode, d: &Difficulty) -> Result<u64, String> {
    let mk = || GradualDifficulty::new_with_mode(d.clone(), map, mode);
    let Ok(reference) = mk() else { return Ok(0) };
    let seq: Vec<String> = reference.map(|v| dump(&v)).collect();
    let mut steps = 1u64;
    let check = |got: Vec<String>, what: &str, from: usize| -> Result<(), String> {
        // `rest`-style checks run to the end of the sequence, `take`-style ones stop earlier
        if what.ends_with("rest") || what.ends_with("pop") || what.ends_with("take") && !what.starts_with("boxed") {
            if got.len() + from != seq.len() {
                return Err(format!("{what}: produced {} values from position {from}, reference has {}", got.len(), seq.len()));
            }
        }
        for (k, g) in got.iter().enumerate() {
            if seq.get(from + k) != Some(g) {
                return Err(format!("{what}: value #{} differs from the reference sequence", from + k));
            }
        }
        Ok(())
    };
    // dropped untouched
    drop(mk());
    // moved into a Box, partially consumed, moved again, finished
    {
        let mut b = Box::new(mk().map_err(|e| format!("{e:?}"))?);
        let k = rng.usize_below(seq.len() + 1);
        let first: Vec<String> = b.by_ref().take(k).map(|v| dump(&v)).collect();
        check(first, "boxed/take", 0)?;
        let moved = *b;
        let rest: Vec<String> = moved.map(|v| dump(&v)).collect();
        check(rest, "unboxed/rest", k.min(seq.len()))?;
        steps += 1;
    }
    // into a Vec that reallocates, then drained in a different order
    {
        let mut v: Vec<GradualDifficulty> = Vec::new();
        for _ in 0..3 {
            v.push(mk().map_err(|e| format!("{e:?}"))?);
        }
        let mut firsts = Vec::new();
        for g in v.iter_mut() {
            firsts.push(g.next().map(|x| dump(&x)));
        }
        v.reserve(64);
        v.swap(0, 2);
        let last = v.pop().unwrap();
        let got: Vec<String> = last.map(|x| dump(&x)).collect();
        check(got, "vec/pop", 1.min(seq.len()))?;
        for f in firsts {
            if f.as_ref() != seq.first() {
                return Err("vec/first value differs".into());
            }
        }
        drop(v); // two partially consumed instances dropped mid-iteration
        steps += 1;
    }
    // mem::swap of two instances at different positions, interleaved afterwards
    {
        let mut a = mk().map_err(|e| format!("{e:?}"))?;
        let mut b = mk().map_err(|e| format!("{e:?}"))?;
        let ka = rng.usize_below(3).min(seq.len());
        for _ in 0..ka {
            a.next();
        }
        std::mem::swap(&mut a, &mut b);
        // now b is at ka, a at 0
        let mut pa = 0;
        let mut pb = ka;
        for _ in 0..(2 * seq.len() + 2) {
            if rng.chance(0.5) {
                let g = a.next().map(|x| dump(&x));
                if g.as_ref() != seq.get(pa) {
                    return Err(format!("swap/interleave: a at {pa} differs"));
                }
                pa = (pa + 1).min(seq.len());
            } else {
                let g = b.nth(0).map(|x| dump(&x));
                if g.as_ref() != seq.get(pb) {
                    return Err(format!("swap/interleave: b at {pb} differs"));
                }
                pb = (pb + 1).min(seq.len());
            }
        }
        steps += 1;
    }
    // Option::take / replace
    {
        let mut slot = Some(mk().map_err(|e| format!("{e:?}"))?);
        if let Some(g) = slot.as_mut() {
            g.next();
        }
        let taken = slot.take().unwrap();
        let got: Vec<String> = taken.map(|x| dump(&x)).collect();
        check(got, "option/take", 1.min(seq.len()))?;
        steps += 1;
    }
    #[cfg(feature = "sync")]
    {
        // hand the calculator to another thread mid-iteration and back
        let mut g = mk().map_err(|e| format!("{e:?}"))?;
        let first = g.next().map(|x| dump(&x));
        if first.as_ref() != seq.first() {
            return Err("thread/first differs".into());
        }
        let (g, second) = std::thread::spawn(move || {
            let s = g.next().map(|x| dump(&x));
            (g, s)
        })
        .join()
        .map_err(|_| "thread panicked".to_string())?;
        if second.as_ref() != seq.get(1) {
            return Err("thread/second differs".into());
        }
        let rest: Vec<String> = g.map(|x| dump(&x)).collect();
        check(rest, "thread/rest", 2.min(seq.len()))?;
        steps += 1;
    }
    Ok(steps)
}

const SLIDER_LINES: &[&str] = &[
    "100,100,1000,2,0,B|200:200|250:200|250:200|300:150,2,310.123,2|1|2,0:0|0:0|0:2,0:0:0:0:",
    "100,100,1000,2,0,P|200:200|300:100,1,300",
    "100,100,1000,2,0,P|200:200|300:300,1,300",
    "100,100,1000,2,0,L|200:200,1,100",
    "100,100,1000,2,0,C|200:200|200:200|300:300|400:100,1,500",
    "100,100,1000,2,0,B|200:200|L|300:300|P|400:400|500:100|600:600,3,900",
    "100,100,1000,2,0,B,1,100",
    "100,100,1000,2,0,|,1,100",
    "100,100,1000,2,0,B|,1,100",
    "100,100,1000,2,0,B|200,1,100",
    "100,100,1000,2,0,B|200:x,1,100",
    "100,100,1000,2,0,B|200:200|,1,100",
    "100,100,1000,2,0,B|200:200||300:300,1,100",
    "100,100,1000,2,0,B|200:200|L|,1,100",
    "100,100,1000,2,0,B|999999:999999,1,100",
    "100,100,1000,2,0,B|1e400:5,1,100",
    "100,100,1000,2,0,L|100:100,1,0",
    "100,100,1000,2,0,B|200:200|B|300:300|B,1,100",
    "100,100,1000,2,0,é|200:200,1,100",
    "100,100,1000,2,0,P|100:100|100:100,1,100",
];

fn decoder_paths(rng: &mut Rng) -> Result<u64, String> {
    let mut text = String::from("osu file format v14\n\n[TimingPoints]\n0,400,4,2,0,60,1,0\n\n[HitObjects]\n");
    let n = 1 + rng.usize_below(8);
    for _ in 0..n {
        text.push_str(*rng.pick(SLIDER_LINES));
        text.push('\n');
        if rng.chance(0.3) {
            text.push_str("50,50,900,1,0\n");
        }
    }
    let a = Beatmap::from_bytes(text.as_bytes()).map_err(|e| e.to_string())?;
    let b = Beatmap::from_str(&text).map_err(|e| e.to_string())?;
    if dump(&a) != dump(&b) {
        return Err("from_bytes and from_str differ on slider path lines".into());
    }
    Ok(2)
}

pub fn case(ctx: &mut Ctx, idx: u64) {
    let mut rng = Rng::for_case(ctx.seed, "C11", idx);
    let small = ctx.param_u64("small", 0) == 1; // Miri-sized workload
    let max_len = if small { 24 } else if rng.chance(0.1) { 3000 } else { 120 };

    // ---- (1) StrainsVec against the Vec<f64> model
    let n_prog = if small { 2 } else { 8 };
    for _ in 0..n_prog {
        let mut r2 = rng.fork();
        let r = guard(|| bracket("strains_vec", || strains_vec_model(&mut r2, max_len)));
        match r {
            Ok(Ok(steps)) => {
                ctx.evals(steps);
                ctx.count("strainsvec_programs");
            }
            Ok(Err(msg)) => {
                let clause = msg.split(['(', ' ', '=']).next().unwrap_or("model").to_string();
                ctx.violation(&format!("C11/strainsvec-model/{clause}"), &msg, None);
            }
            Err(p) => ctx.violation(&format!("C11/strainsvec-panic/{}", p.sig()), &format!("{} at {}", p.msg, p.loc), None),
        }
    }

    for _ in 0..n_prog {
        let mut r2 = rng.fork();
        let r = guard(|| bracket("strains_vec", || strains_vec_program(&mut r2, max_len)));
        match r {
            Ok(Ok(steps)) => {
                ctx.evals(steps);
                ctx.count("strainsvec_free_programs");
            }
            Ok(Err(msg)) => {
                let clause = msg.split([' ', '(']).next().unwrap_or("model").to_string();
                ctx.violation(&format!("C11/strainsvec-program/{clause}"), &msg, None);
            }
            Err(p) => ctx.violation(&format!("C11/strainsvec-panic/{}", p.sig()), &format!("{} at {}", p.msg, p.loc), None),
        }
    }

    // ---- (2) gradual calculator lifetimes on tiny maps
    let (text, map) = if small {
        tiny_map(&mut rng)
    } else {
        match gen::gen_domain_map(
            &mut rng,
            &Mix {
                realistic: true,
                max_objects: 25,
                ..Mix::default()
            },
            maps::Domain::Realistic,
        ) {
            Some((mc, m)) => (mc.text, Some(m)),
            None => (String::new(), None),
        }
    };
    if let Some(map) = map {
        let modes = maps::reachable_modes(&map);
        let modes: Vec<GameMode> = if small { vec![*rng.pick(&modes)] } else { modes };
        for mode in modes {
            // the lifetime checks only compare a calculator with itself, so the settings may be anything the API accepts,
            // including a Difficulty that still carries passed_objects (its meaning for a gradual calculator is irrelevant here)
            let spec = sets::gen_setspec_wide(&mut rng, mode, &map);
            let spec = if rng.chance(0.4) {
                ctx.count("lifetimes:difficulty-carries-passed_objects");
                spec.with_passed(rng.below(map.hit_objects.len() as u64 + 2) as u32)
            } else {
                spec.without_passed()
            };
            let d = spec.to_difficulty(mode);
            let mut r2 = rng.fork();
            let r = guard(|| bracket("gradual_lifetimes", || gradual_lifetimes(&mut r2, &map, mode, &d)));
            let mname = mode_name(mode);
            match r {
                Ok(Ok(steps)) => {
                    ctx.evals(steps);
                    ctx.count(&format!("lifetimes:{mname}"));
                }
                Ok(Err(msg)) => ctx.violation(
                    &format!("C11/gradual-lifetimes/{mname}/{}", msg.split(':').next().unwrap_or("x")),
                    &format!("{msg} | settings=[{}]", spec.describe()),
                    Some(&text),
                ),
                Err(p) => ctx.violation(
                    &format!("C11/gradual-lifetimes-panic/{mname}/{}", p.sig()),
                    &format!("{} at {} | settings=[{}]", p.msg, p.loc, spec.describe()),
                    Some(&text),
                ),
            }
        }
        if map.hit_objects.len() >= 2 {
            ctx.nontrivial(hash_str(&text));
        }
    }

    // ---- (3) decoder scratch buffer on slider path lines (incl. early error returns)
    {
        let mut r2 = rng.fork();
        match guard(|| bracket("decode", || decoder_paths(&mut r2))) {
            Ok(Ok(n)) => {
                ctx.evals(n);
                ctx.count("decoder_path_files");
            }
            Ok(Err(msg)) => ctx.violation("C11/decoder-paths", &msg, None),
            Err(p) => ctx.violation(&format!("C11/decoder-panic/{}", p.sig()), &format!("{} at {}", p.msg, p.loc), None),
        }
    }

    // ---- (4) clock_rate extremes (NonZeroU64::new_unchecked)
    {
        for c in [0.0, -0.0, -1.0, 1e-320, f64::MIN_POSITIVE, 0.01, 100.0, f64::INFINITY, f64::NEG_INFINITY, 1e308] {
            let d = Difficulty::new().clock_rate(c);
            let i = d.clone().inspect();
            ctx.eval();
            let got = i.clock_rate.unwrap_or(f64::NAN);
            if !(0.01..=100.0).contains(&got) {
                ctx.violation("C11/clock_rate", &format!("clock_rate({c:?}) is stored as {got:?}"), None);
            }
            let _ = dump(&d);
        }
        ctx.count("clock_rate_extremes");
    }
    ctx.sample(|| format!("small={small} strainsvec max_len={max_len} map_bytes={}", text.len()));
}
