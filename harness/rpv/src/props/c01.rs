//! C01 — calculations are deterministic, pure functions of their inputs.
//!
//! In-process: first-seen table over a random call history (repetitions, interleavings with other
//! maps, fresh vs reused builders, a third of the calls on freshly spawned threads) + purity
//! check of every by-reference call. Every observation is also written to the history log so
//! that the driver can join the logs of several processes (different hash seeds, layouts, thread).

use std::{collections::HashMap, str::FromStr};

use rosu_pp::{any::ScoreState, model::mode::GameMode, Beatmap, Difficulty, Performance};

use crate::{
    api,
    gen::{self, Mix},
    maps::{dump, mode_name, reachable_modes},
    osu::{self, Profile},
    rng::{hash_str, Rng},
    runner::{api as bracket, guard, Ctx},
    sets::{self, ScoreSpec, SetSpec},
};

#[derive(Clone, Debug)]
enum Op {
    DecodeBytes,
    DecodeStr,
    DecodePath,
    Bpm,
    /// decode a fresh copy, ask for its bpm, drop it (recycled addresses / history-free evaluation)
    BpmFresh,
    Convert(GameMode, u8),
    Difficulty(GameMode),
    Strains(GameMode),
    GradualDifficulty(GameMode),
    Performance(GameMode),
    /// one builder value used twice: generate_state() first, then calculate() - reported is the calculate() result, which
    /// has to be the one a fresh builder gives ("fresh vs reused builder values")
    PerformanceReusedBuilder(GameMode),
    GradualPerformance(GameMode),
    Attributes(GameMode),
}

struct Entry {
    text: String,
    map: Beatmap,
    before: String,
}

fn run_op(op: &Op, e: &Entry, spec: &SetSpec, sc: &ScoreSpec, states: &[ScoreState], d_reused: Option<&Difficulty>, tmp: &str) -> String {
    let map = &e.map;
    match op {
        Op::DecodeBytes => dump(&bracket("decode", || Beatmap::from_bytes(e.text.as_bytes()).map_err(|e| e.kind()))),
        Op::DecodeStr => dump(&bracket("decode", || Beatmap::from_str(&e.text).map_err(|e| e.kind()))),
        Op::DecodePath => {
            let _ = std::fs::write(tmp, e.text.as_bytes());
            dump(&bracket("decode", || Beatmap::from_path(tmp).map_err(|e| e.kind())))
        }
        Op::Bpm => format!("{:?}", bracket("bpm", || map.bpm()).to_bits()),
        Op::BpmFresh => {
            let fresh = Beatmap::from_bytes(e.text.as_bytes());
            match fresh {
                Ok(m) => format!("{:?}", bracket("bpm", || m.bpm()).to_bits()),
                Err(_) => "decode-error".into(),
            }
        }
        Op::Convert(m, how) => {
            let mods = spec.mods.to_gamemods(*m);
            match how {
                0 => dump(&bracket("convert", || map.clone().convert(*m, &mods))),
                1 => dump(&bracket("convert_ref", || map.convert_ref(*m, &mods).map(|c| c.into_owned()))),
                _ => {
                    let mut c = map.clone();
                    let r = bracket("convert_mut", || c.convert_mut(*m, &mods));
                    format!("{r:?} {}", dump(&c))
                }
            }
        }
        Op::Difficulty(m) => {
            let fresh = spec.to_difficulty(*m);
            let d = d_reused.unwrap_or(&fresh);
            dump(&api::calc_for_mode(d, map, *m))
        }
        Op::Strains(m) => {
            let fresh = spec.to_difficulty(*m);
            let d = d_reused.unwrap_or(&fresh);
            dump(&api::strains_for_mode(d, map, *m))
        }
        Op::GradualDifficulty(m) => {
            let d = spec.for_gradual().to_difficulty(*m);
            match api::gradual(d, map, *m) {
                Err(e) => format!("{e:?}"),
                Ok(g) => {
                    // bounded walk: first 6, then strides
                    let mut out = Vec::new();
                    let mut g = g;
                    for _ in 0..6 {
                        out.push(dump(&api::g_next(&mut g)));
                    }
                    for _ in 0..6 {
                        out.push(dump(&api::g_nth(&mut g, 7)));
                    }
                    out.join("|")
                }
            }
        }
        Op::Performance(m) => {
            let fresh = spec.to_difficulty(*m);
            let d = d_reused.unwrap_or(&fresh).clone();
            let mods = spec.mods.to_gamemods(*m);
            match map.convert_ref(*m, &mods) {
                Err(e) => format!("{e:?}"),
                Ok(c) => dump(&api::perf_calc(sc.apply(Performance::new(c.as_ref()).difficulty(d)))),
            }
        }
        Op::PerformanceReusedBuilder(m) => {
            let d = spec.to_difficulty(*m);
            let mods = spec.mods.to_gamemods(*m);
            match map.convert_ref(*m, &mods) {
                Err(e) => format!("{e:?}"),
                Ok(c) => {
                    let fresh = dump(&api::perf_calc(sc.apply(Performance::new(c.as_ref()).difficulty(d.clone()))));
                    let mut p = sc.apply(Performance::new(c.as_ref()).difficulty(d));
                    let s1 = bracket("generate_state", || p.generate_state());
                    let s2 = bracket("generate_state", || p.generate_state());
                    let reused = dump(&api::perf_calc(p));
                    // both values are part of the recorded result: any difference shows up as nondeterminism of this op
                    if dump(&s1) == dump(&s2) && fresh == reused {
                        fresh
                    } else {
                        format!("REUSED-BUILDER-DIFFERS state1={} state2={} fresh={fresh} reused={reused}", dump(&s1), dump(&s2))
                    }
                }
            }
        }
        Op::GradualPerformance(m) => {
            let d = spec.for_gradual().to_difficulty(*m);
            match api::gradual_perf(d, map, *m) {
                Err(e) => format!("{e:?}"),
                Ok(mut g) => states
                    .iter()
                    .enumerate()
                    .map(|(k, s)| dump(&api::gp_nth(&mut g, s.clone(), k % 3)))
                    .collect::<Vec<_>>()
                    .join("|"),
            }
        }
        Op::Attributes(m) => {
            let d = spec.to_difficulty(*m);
            let b = bracket("attributes::build", || map.attributes().mode(*m, map.mode != *m).difficulty(&d).build());
            dump(&b)
        }
    }
}

fn op_name(op: &Op) -> String {
    match op {
        Op::DecodeBytes => "decode_bytes".into(),
        Op::DecodeStr => "decode_str".into(),
        Op::DecodePath => "decode_path".into(),
        Op::Bpm | Op::BpmFresh => "bpm".into(),
        Op::Convert(m, how) => format!("convert{how}:{}", mode_name(*m)),
        Op::Difficulty(m) => format!("difficulty:{}", mode_name(*m)),
        Op::Strains(m) => format!("strains:{}", mode_name(*m)),
        Op::GradualDifficulty(m) => format!("gradual_difficulty:{}", mode_name(*m)),
        // same key as the fresh-builder operation on purpose: the two must agree
        Op::Performance(m) | Op::PerformanceReusedBuilder(m) => format!("performance:{}", mode_name(*m)),
        Op::GradualPerformance(m) => format!("gradual_performance:{}", mode_name(*m)),
        Op::Attributes(m) => format!("attributes:{}", mode_name(*m)),
    }
}

fn gen_op(rng: &mut Rng, map: &Beatmap) -> Op {
    let modes = reachable_modes(map);
    let m = *rng.pick(&modes);
    match rng.below(16) {
        0 => Op::DecodeBytes,
        1 => Op::DecodeStr,
        2 => Op::DecodePath,
        3 | 4 => Op::Bpm,
        5 => Op::BpmFresh,
        6 | 7 => Op::Convert(*rng.pick(&crate::maps::MODES), rng.below(3) as u8),
        8 | 9 => Op::Difficulty(m),
        10 => Op::Strains(m),
        11 => Op::GradualDifficulty(m),
        12 => Op::Performance(m),
        13 => {
            if rng.chance(0.5) {
                Op::Performance(m)
            } else {
                Op::PerformanceReusedBuilder(m)
            }
        }
        14 => Op::GradualPerformance(m),
        _ => Op::Attributes(m),
    }
}

/// Same file with the uninherited beat lengths replaced (times and line count unchanged).
fn sibling_text(rng: &mut Rng, text: &str) -> String {
    let mut in_tp = false;
    let mut out = Vec::new();
    for line in text.lines() {
        let t = line.trim();
        if t.starts_with('[') {
            in_tp = t == "[TimingPoints]";
            out.push(line.to_string());
            continue;
        }
        if in_tp {
            let mut parts: Vec<String> = line.split(',').map(str::to_string).collect();
            if parts.len() >= 2 && parts[1].trim().parse::<f64>().map_or(false, |v| v > 0.0) {
                parts[1] = (*rng.pick(&["300", "400", "500", "600", "250", "375", "750", "428.571428571429"])).to_string();
                out.push(parts.join(","));
                continue;
            }
        }
        out.push(line.to_string());
    }
    out.join("\n")
}

#[allow(clippy::too_many_lines)]
pub fn case(ctx: &mut Ctx, idx: u64) {
    let mut rng = Rng::for_case(ctx.seed, "C01", idx);
    // one case in 192 (thorough: 768) carries a slow-search map (see below); each costs tens of CPU seconds
    let slow_mod: u64 = if ctx.thorough() { 768 } else { 192 };
    let junk_mb = ctx.param_u64("junk_mb", 0);
    // perturb the heap layout of this process once (cross-process monitor)
    static JUNK: std::sync::OnceLock<Vec<Vec<u8>>> = std::sync::OnceLock::new();
    let _ = JUNK.get_or_init(|| (0..junk_mb).map(|k| vec![k as u8; 1 << 20]).collect());
    let tmp = format!("/tmp/rpv-c01-{}-{}.osu", std::process::id(), idx);

    // pool of maps: tie-heavy inputs are the point
    let n_maps = 3 + rng.usize_below(4);
    let mut pool: Vec<Entry> = Vec::new();
    let max_objects = if ctx.thorough() { 80 } else { 40 };
    for k in 0..n_maps {
        let text = match (k, rng.below(10)) {
            // every eighth case: a long map (code paths that only open beyond ~1000 objects, e.g. chunked summation)
            (2, _) if idx % 8 == 5 => {
                ctx.count("class:pool-with-long-map");
                let file_mode = *rng.pick(&[0u8, 0, 1, 2, 3]);
                let n = 1030 + rng.usize_below(700);
                osu::long_file_n(&mut rng, file_mode, n).render()
            }
            // one case in 192 (thorough: 768): a map of ~1500 notes whose mania plays are given by accuracy only - the hit-result search
            // then runs for seconds per call (milliseconds per candidate), long enough for anything that depends on elapsed time, machine
            // load or a budget to show up as a difference between identical requests
            (2, _) if idx % slow_mod == 9 => {
                ctx.count("class:pool-with-slow-search-map");
                let file_mode = 3u8;
                let n = 1400 + rng.usize_below(300);
                osu::phased_file(&mut rng, file_mode, n).render()
            }
            // a hostile neighbour: decoding it ends in the middle of a rejected slider path (every third case)
            (1, _) if idx % 3 == 0 => {
                ctx.count("class:pool-with-half-rejected-slider-file");
                osu::half_rejected_tail_text(&mut rng)
            }
            (0, _) | (_, 0 | 1) => osu::bpm_tie_file(&mut rng).render(),
            (_, 2 | 3) => osu::generate(
                &mut rng,
                &osu::GenOpts {
                    profile: Profile::Ties,
                    mode: None,
                    max_objects,
                },
            )
            .render(),
            _ => gen::gen_map(
                &mut rng,
                &Mix {
                    realistic: true,
                    max_objects,
                    ..Mix::default()
                },
            )
            .text,
        };
        // a sibling of the previous map: same shape (line count, times), different beat lengths, so that a result
        // remembered by address / shape instead of content would be wrong
        let special = k == 2 && (idx % 8 == 5 || idx % slow_mod == 9);
        let text = if k > 0 && !special && rng.chance(0.35) {
            match pool.last() {
                Some(prev) => sibling_text(&mut rng, &prev.text),
                None => text,
            }
        } else {
            text
        };
        let Some(map) = crate::maps::decode(&text) else { continue };
        if crate::maps::out_of_domain(&map, crate::maps::Domain::Adversarial, 2000).is_some() {
            continue;
        }
        if crate::maps::est_sections(&map, 0.5) > 50_000.0 {
            continue;
        }
        let before = dump(&map);
        pool.push(Entry { text, map, before });
    }
    if pool.is_empty() {
        ctx.count("skipped_no_map");
        return;
    }
    // settings / scores per map (a few variants each)
    let mut variants: Vec<Vec<(SetSpec, ScoreSpec, Vec<ScoreState>)>> = Vec::new();
    for e in &pool {
        let n = e.map.hit_objects.len() as u32;
        let v = (0..3)
            .map(|_| {
                let mut m = *rng.pick(&reachable_modes(&e.map));
                if idx % slow_mod == 9 && (1390..=1710).contains(&n) && reachable_modes(&e.map).contains(&GameMode::Mania) {
                    m = GameMode::Mania;
                }
                let mut spec = sets::gen_setspec_wide(&mut rng, m, &e.map);
                if rng.chance(0.3) {
                    spec.passed = Some(rng.below(u64::from(n) + 2) as u32);
                }
                // lazer Random mod with and without seed
                if rng.chance(0.3) && matches!(m, GameMode::Mania | GameMode::Taiko) {
                    spec.mods.repr = sets::Repr::Lazer;
                    spec.mods.extra.random = Some(if rng.chance(0.7) { Some(rng.range(0, 99999) as f64) } else { None });
                }
                let mut sc = sets::gen_scorespec(&mut rng, n + 2);
                let slow_search = idx % slow_mod == 9 && (1390..=1710).contains(&n) && reachable_modes(&e.map).contains(&GameMode::Mania);
                if slow_search {
                    // accuracy (and sometimes misses) only, never a round value that the first candidate meets exactly
                    sc = ScoreSpec {
                        acc: Some(rng.frange(75.0, 95.0) + 0.000_137),
                        misses: if rng.chance(0.5) { Some(rng.below(5) as u32) } else { None },
                        worst: if rng.chance(0.3) { Some(true) } else { None },
                        ..ScoreSpec::default()
                    };
                } else if n > 400 {
                    // long maps: a fully specified state (the hit-result search of generate_state is cubic in the object count
                    // for mania - a time-budget matter that C05 judges inside its <= 400 objects domain)
                    sc = ScoreSpec {
                        state: Some(sets::gen_state(&mut rng, n + 1)),
                        ..ScoreSpec::default()
                    };
                }
                let states = (0..4).map(|_| sets::gen_state(&mut rng, n + 1)).collect();
                (spec, sc, states)
            })
            .collect();
        variants.push(v);
    }

    let n_ops = if ctx.thorough() { 60 + rng.usize_below(140) } else { 40 + rng.usize_below(60) };
    let mut first_seen: HashMap<String, (String, usize)> = HashMap::new();
    let mut reused: Vec<Option<Difficulty>> = vec![None; pool.len() * 3];
    let mut repeats = 0u64;
    let mut threaded = 0u64;
    let mut step = 0usize;
    let mut history: Vec<String> = Vec::new();
    let mut heap_junk: Vec<Vec<u8>> = Vec::new();
    // index of the slow-search map in the pool (if this case has one): it gets its accuracy-only mania plays for sure
    let slow_idx = if idx % slow_mod == 9 {
        pool.iter().position(|e| (1390..=1710).contains(&e.map.hit_objects.len()) && reachable_modes(&e.map).contains(&GameMode::Mania))
    } else {
        None
    };
    if idx % slow_mod == 9 && ctx.verbose {
        eprintln!("slow_idx={slow_idx:?} pool sizes={:?} modes={:?}", pool.iter().map(|e| e.map.hit_objects.len()).collect::<Vec<_>>(), pool.iter().map(|e| e.map.mode).collect::<Vec<_>>());
    }
    let mut rounds = 0usize;
    while step < n_ops {
        rounds += 1;
        let mut mi = rng.usize_below(pool.len());
        let vi = rng.usize_below(3);
        let mut op = gen_op(&mut rng, &pool[mi].map);
        let mut reps = 1 + rng.usize_below(4);
        if let (Some(si), true) = (slow_idx, rounds == 2 || rounds == 9) {
            mi = si;
            op = if rounds == 2 { Op::Performance(GameMode::Mania) } else { Op::PerformanceReusedBuilder(GameMode::Mania) };
            reps = 2;
        }
        for rep in 0..reps {
            step += 1;
            let (spec, sc, states) = &variants[mi][vi];
            // every second observation of a slow search runs on a loaded machine: six spinning threads compete for the cores
            // for the duration of the call ("results do not depend on time or load")
            let load_stop = std::sync::Arc::new(std::sync::atomic::AtomicBool::new(false));
            let mut spinners = Vec::new();
            if slow_idx == Some(mi) && matches!(op, Op::Performance(_) | Op::PerformanceReusedBuilder(_)) && rep % 2 == 1 {
                for _ in 0..6 {
                    let stop = load_stop.clone();
                    spinners.push(std::thread::spawn(move || {
                        let mut x = 1u64;
                        while !stop.load(std::sync::atomic::Ordering::Relaxed) {
                            x = x.wrapping_mul(6364136223846793005).wrapping_add(1);
                            std::hint::black_box(x);
                        }
                    }));
                }
                ctx.count("observations_under_injected_cpu_load");
            }
            // fresh vs reused builder value
            let use_reused = rng.chance(0.5);
            let slot = mi * 3 + vi;
            let d_reused: Option<Difficulty> = if use_reused {
                let m = match &op {
                    Op::Difficulty(m) | Op::Strains(m) | Op::Performance(m) => Some(*m),
                    _ => None,
                };
                m.map(|m| reused[slot].get_or_insert_with(|| spec.to_difficulty(m)).clone())
            } else {
                None
            };
            // NOTE: a reused Difficulty was built for the mode of its first use; mods given as lazer mods are
            // mode-specific, so only reuse it when built for the same mode
            let d_reused = d_reused.filter(|d| {
                let m = match &op {
                    Op::Difficulty(m) | Op::Strains(m) | Op::Performance(m) => *m,
                    _ => return false,
                };
                dump(d) == dump(&spec.to_difficulty(m))
            });
            let on_thread = rng.chance(0.33);
            let e = &pool[mi];
            // perturb the heap layout between observations: small live allocations of odd multiples of 16 bytes shift the
            // 32-byte alignment of whatever the library allocates next ("no dependence on addresses")
            if rng.chance(0.7) {
                heap_junk.push(vec![0u8; 8 + 16 * rng.usize_below(9)]);
            }
            if heap_junk.len() > 64 && rng.chance(0.1) {
                heap_junk.clear();
            }
            let res = if on_thread {
                threaded += 1;
                std::thread::scope(|s| {
                    s.spawn(|| guard(|| run_op(&op, e, spec, sc, states, d_reused.as_ref(), &tmp)))
                        .join()
                        .unwrap_or_else(|_| Ok("thread-join-failed".into()))
                })
            } else {
                guard(|| run_op(&op, e, spec, sc, states, d_reused.as_ref(), &tmp))
            };
            load_stop.store(true, std::sync::atomic::Ordering::Relaxed);
            for h in spinners {
                let _ = h.join();
            }
            ctx.eval();
            let key = format!("{idx}/{mi}/{}/{}", op_name(&op), hash_str(&format!("{} {}", spec.describe(), sc.describe())));
            history.push(format!("{}@map{mi}{}", op_name(&op), if on_thread { "(thread)" } else { "" }));
            let val = match res {
                Ok(v) => v,
                Err(p) => format!("PANIC {}", p.sig()),
            };
            ctx.hist_line(&key, hash_str(&val));
            if val.starts_with("REUSED-BUILDER-DIFFERS") {
                ctx.violation(
                    "C01/reused-builder/performance",
                    &format!(
                        "a performance builder that was asked for its state first gives a different result than a fresh one | settings=[{}] score={}\n {}",
                        spec.describe(),
                        sc.describe(),
                        crate::runner::truncate(&val, 2500)
                    ),
                    Some(&e.text),
                );
                let _ = std::fs::remove_file(&tmp);
                return;
            }
            // purity: the map given by reference is untouched
            if dump(&e.map) != e.before {
                ctx.violation(
                    &format!("C01/impure/{}", op_name(&op).split(':').next().unwrap_or("op")),
                    &format!("map #{mi} changed across a by-reference call {} | history tail {:?}", op_name(&op), &history[history.len().saturating_sub(8)..]),
                    Some(&e.text),
                );
                return;
            }
            match first_seen.get(&key) {
                None => {
                    first_seen.insert(key, (val, step));
                }
                Some((first, at)) => {
                    repeats += 1;
                    if *first != val {
                        let opn = op_name(&op);
                        ctx.violation(
                            &format!("C01/nondeterministic/{}", opn.split(':').next().unwrap_or("op")),
                            &format!(
                                "{opn} on map #{mi} gave a different value at step {step} than at step {at} (same map, settings, score)\n settings=[{}]\n first : {}\n later : {}\n history tail: {:?}",
                                spec.describe(),
                                crate::runner::truncate(first, 1200),
                                crate::runner::truncate(&val, 1200),
                                &history[history.len().saturating_sub(10)..]
                            ),
                            Some(&e.text),
                        );
                        let _ = std::fs::remove_file(&tmp);
                        return;
                    }
                }
            }
        }
    }
    let _ = std::fs::remove_file(&tmp);
    ctx.count_n("repeated_observations", repeats);
    ctx.count_n("observations_on_spawned_threads", threaded);
    ctx.count_n("distinct_keys", first_seen.len() as u64);
    ctx.nontrivial(hash_str(&pool.iter().map(|e| e.text.as_str()).collect::<Vec<_>>().join("\n")));
    ctx.sample(|| format!("maps={} ops={n_ops} history head={:?}", pool.len(), &history[..history.len().min(12)]));
}
