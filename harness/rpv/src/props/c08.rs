//! C08 — results do not depend on how equivalent settings are expressed.

use rosu_pp::{model::mode::GameMode, Beatmap, Performance};

use crate::{
    api,
    gen::{self, Mix},
    maps::{dump, mode_name, Domain},
    rng::{hash_str, Rng},
    runner::{api as bracket, guard, truncate, Ctx},
    sets::{self, Da, LazerExtra, ModSpec, Repr, ScoreSpec, SetSpec, ALL_REPRS, DT, EZ, HR, HT, NC},
};

/// Everything that is computed from one settings value, as a list of (label, dump).
fn all_results(map: &Beatmap, mode: GameMode, spec: &SetSpec, sc: &ScoreSpec) -> Vec<(&'static str, String)> {
    let d = spec.to_difficulty(mode);
    let gm = spec.mods.to_gamemods(mode);
    let mut out = Vec::new();
    let attrs = api::calc_for_mode(&d, map, mode);
    out.push(("difficulty", dump(&attrs)));
    out.push(("strains", dump(&api::strains_for_mode(&d, map, mode))));
    // performance with the score spec through Performance::mods as well as through Difficulty::mods
    let conv = map.convert_ref(mode, &gm).map(|c| c.into_owned());
    if let Ok(conv) = conv {
        let p = sc.apply(Performance::new(&conv).difficulty(d.clone()));
        out.push(("performance(difficulty)", dump(&api::perf_calc(p))));
        let mut p2 = Performance::new(&conv).difficulty(spec_without_mods(spec).to_difficulty(mode));
        p2 = bracket("performance::mods", || p2.mods(spec.mods.to_gamemods(mode)));
        out.push(("performance(mods)", dump(&api::perf_calc(sc.apply(p2)))));
        // attribute builder
        let b = bracket("attributes::build", || conv.attributes().mods(spec.mods.to_gamemods(mode)).build());
        out.push(("attributes(mods).build", dump(&b)));
        let b = bracket("attributes::build", || conv.attributes().difficulty(&d).build());
        out.push(("attributes(difficulty).build", dump(&b)));
        let hw = bracket("attributes::hit_windows", || conv.attributes().difficulty(&d).hit_windows());
        out.push(("attributes(difficulty).hit_windows", dump(&hw)));
    }
    out
}

fn spec_without_mods(spec: &SetSpec) -> SetSpec {
    SetSpec {
        mods: ModSpec::default(),
        ..spec.clone()
    }
}

fn compare(
    ctx: &mut Ctx,
    clause: &str,
    mname: &str,
    text: &str,
    a_desc: &str,
    b_desc: &str,
    a: Result<Vec<(&'static str, String)>, crate::runner::PanicInfo>,
    b: Result<Vec<(&'static str, String)>, crate::runner::PanicInfo>,
) {
    ctx.eval();
    match (a, b) {
        (Ok(a), Ok(b)) => {
            for ((la, va), (_, vb)) in a.iter().zip(b.iter()) {
                if va != vb {
                    ctx.violation(
                        &format!("C08/{clause}/{mname}/{la}"),
                        &format!(
                            "{la} differs between equivalent settings\n A: {a_desc}\n B: {b_desc}\n A-> {}\n B-> {}",
                            truncate(va, 1800),
                            truncate(vb, 1800)
                        ),
                        Some(text),
                    );
                    return;
                }
            }
            if a.len() != b.len() {
                ctx.violation(&format!("C08/{clause}/{mname}/result-count"), &format!("A: {a_desc}\n B: {b_desc}"), Some(text));
            }
        }
        (Err(p), _) | (_, Err(p)) => {
            ctx.violation(
                &format!("C08/{clause}/{mname}/{}", p.sig()),
                &format!("panic {} at {}\n A: {a_desc}\n B: {b_desc}", p.msg, p.loc),
                Some(text),
            );
        }
    }
}

#[allow(clippy::too_many_lines)]
pub fn case(ctx: &mut Ctx, idx: u64) {
    let mut rng = Rng::for_case(ctx.seed, "C08", idx);
    let max_objects = if ctx.thorough() { 80 } else { 30 };
    let mx = Mix {
        realistic: true,
        max_objects,
        ..Mix::default()
    };
    let Some((mc, map)) = gen::gen_domain_map(&mut rng, &mx, Domain::Realistic) else {
        ctx.count("skipped_no_domain_map");
        return;
    };
    let mode = gen::pick_mode(&mut rng, &map);
    let mname = mode_name(mode);
    ctx.count(&format!("mode:{mname}"));
    let text = mc.text.as_str();
    let sc = sets::gen_scorespec(&mut rng, map.hit_objects.len() as u32 + 2);

    // base settings (everything but mods), shared by all representations
    let mut base = sets::gen_setspec(&mut rng, mode, sets::SetDomain::Game);
    base.mods = ModSpec::default();
    if map.hit_objects.len() >= 2 {
        ctx.nontrivial(hash_str(text) ^ hash_str(&base.describe()) ^ (mode as u64));
    }

    // ---- (1) representations of the same legacy combination
    let n_sets = if ctx.thorough() { 4 } else { 2 };
    for _ in 0..n_sets {
        // the property quantifies over NF EZ TD HD HR DT NC HT FL SO RX AP and the mania key mods: nothing else is generated
        let bits = sets::gen_legacy_bits(&mut rng, mode) & !sets::SD;
        let mk = |repr: Repr| SetSpec {
            mods: ModSpec {
                bits,
                repr,
                extra: LazerExtra::default(),
            },
            ..base.clone()
        };
        let ref_spec = mk(Repr::U32);
        let reference = guard(|| all_results(&map, mode, &ref_spec, &sc));
        for &repr in ALL_REPRS.iter().skip(1) {
            let s = mk(repr);
            let r = guard(|| all_results(&map, mode, &s, &sc));
            ctx.count(&format!("repr:{repr:?}"));
            compare(ctx, &format!("repr/{repr:?}"), mname, text, &ref_spec.describe(), &s.describe(), reference.clone(), r);
        }
        ctx.sample(|| format!("mode={mname} src={} bits={bits} base=[{}] score={}", mc.tag, base.describe(), sc.describe()));
    }

    // ---- (2) lazer rate mod with speed_change r == default rate mod + clock_rate(r)
    {
        let (rate_bits, lo, hi) = *rng.pick(&[(DT, 1.01, 2.0), (NC, 1.01, 2.0), (HT, 0.5, 0.99), (HT, 0.5, 0.99)]);
        let daycore = rate_bits == HT && rng.chance(0.5);
        let r = if rng.chance(0.5) {
            (rng.range((lo * 100.0) as i64, (hi * 100.0) as i64) as f64) / 100.0
        } else {
            rng.frange(lo, hi)
        };
        let other = sets::gen_legacy_bits(&mut rng, mode) & !(DT | NC | HT | sets::SD);
        let bits = other | rate_bits;
        let a = SetSpec {
            mods: ModSpec {
                bits,
                repr: Repr::Lazer,
                extra: LazerExtra {
                    speed_change: Some(r),
                    daycore,
                    ..LazerExtra::default()
                },
            },
            clock: None,
            ..base.clone()
        };
        let b = SetSpec {
            mods: ModSpec {
                bits,
                repr: Repr::Lazer,
                extra: LazerExtra {
                    daycore,
                    ..LazerExtra::default()
                },
            },
            clock: Some(r),
            ..base.clone()
        };
        let kind = if daycore {
            "DC"
        } else if rate_bits == NC {
            "NC"
        } else if rate_bits == DT {
            "DT"
        } else {
            "HT"
        };
        ctx.count(&format!("rate:{kind}"));
        // the builder that is given only the mods cannot see B's explicit clock rate
        let strip = |v: Vec<(&'static str, String)>| -> Vec<(&'static str, String)> {
            v.into_iter().filter(|(l, _)| *l != "attributes(mods).build").collect()
        };
        let ra = guard(|| strip(all_results(&map, mode, &a, &sc)));
        let rb = guard(|| strip(all_results(&map, mode, &b, &sc)));
        compare(ctx, &format!("rate/{kind}"), mname, text, &a.describe(), &b.describe(), ra, rb);
    }

    // ---- (3) DifficultyAdjust(field = v) == Difficulty::field(v as f32, false)
    {
        let v = if rng.chance(0.6) {
            (rng.range(0, 110) as f64) / 10.0
        } else {
            rng.frange(0.0, 11.0)
        };
        let fields: &[&str] = match mode {
            GameMode::Osu | GameMode::Catch => &["ar", "cs", "hp", "od"],
            GameMode::Taiko | GameMode::Mania => &["hp", "od"],
        };
        let field = *rng.pick(fields);
        let combo = *rng.pick(&[0u32, 0, HR, EZ, DT, HR | DT, EZ | HT, HT]);
        let mut da = Da::default();
        match field {
            "ar" => da.ar = Some(v),
            "cs" => da.cs = Some(v),
            "hp" => da.hp = Some(v),
            _ => da.od = Some(v),
        }
        let mut nobase = base.clone();
        nobase.ar = None;
        nobase.cs = None;
        nobase.hp = None;
        nobase.od = None;
        let a = SetSpec {
            mods: ModSpec {
                bits: combo,
                repr: Repr::Lazer,
                extra: LazerExtra {
                    da: Some(da),
                    ..LazerExtra::default()
                },
            },
            ..nobase.clone()
        };
        let mut b = SetSpec {
            mods: ModSpec {
                bits: combo,
                repr: Repr::Lazer,
                extra: LazerExtra::default(),
            },
            ..nobase.clone()
        };
        match field {
            "ar" => b.ar = Some((v as f32, false)),
            "cs" => b.cs = Some((v as f32, false)),
            "hp" => b.hp = Some((v as f32, false)),
            _ => b.od = Some((v as f32, false)),
        }
        ctx.count(&format!("da:{field}"));
        // the mods themselves differ (DA present or not), so the attribute builder given only the mods
        // is not comparable; everything that receives the full settings is.
        let strip = |v: Vec<(&'static str, String)>| -> Vec<(&'static str, String)> {
            v.into_iter().filter(|(l, _)| *l != "attributes(mods).build").collect()
        };
        let ra = guard(|| strip(all_results(&map, mode, &a, &sc)));
        let rb = guard(|| strip(all_results(&map, mode, &b, &sc)));
        compare(ctx, &format!("da/{field}"), mname, text, &a.describe(), &b.describe(), ra, rb);
    }
}
