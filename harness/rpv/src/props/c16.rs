//! C16 — strain output is consistent with the star rating it explains.

use rosu_pp::{
    any::{DifficultyAttributes, Strains},
    model::mode::GameMode,
};

use crate::{
    api,
    gen::{self, Mix},
    maps::{mode_name, strain_vecs, Domain},
    osu::Profile,
    rng::{hash_str, Rng},
    runner::{guard, Ctx},
    sets::{self, AP, RX, TD},
};

/// The documented aggregation: drop zeros, sort descending, sum of peak * weight^i.
pub fn aggregate(peaks: &[f64], decay: f64) -> f64 {
    let mut v: Vec<f64> = peaks.iter().copied().filter(|&x| x > 0.0).collect();
    v.sort_by(|a, b| b.total_cmp(a));
    let mut difficulty = 0.0;
    let mut weight = 1.0;
    for s in v {
        difficulty += s * weight;
        weight *= decay;
    }
    difficulty
}

pub fn ulps(a: f64, b: f64) -> u64 {
    if a == b {
        return 0;
    }
    if a.is_nan() || b.is_nan() || a.is_sign_positive() != b.is_sign_positive() {
        return u64::MAX;
    }
    a.to_bits().abs_diff(b.to_bits())
}

#[allow(clippy::too_many_lines)]
pub fn case(ctx: &mut Ctx, idx: u64) {
    let mut rng = Rng::for_case(ctx.seed, "C16", idx);
    let max_objects = if ctx.thorough() { 120 } else { 50 };
    let mx = if rng.chance(0.35) {
        // long breaks / objects before time zero: still non-suspicious, not necessarily "realistic"
        Mix {
            realistic: false,
            max_objects,
            profiles: Some(vec![Profile::Gaps, Profile::Gaps, Profile::Editor, Profile::Spinners]),
            fixtures: false,
            mode: None,
        }
    } else {
        Mix {
            realistic: true,
            max_objects,
            ..Mix::default()
        }
    };
    let Some((mc, map)) = gen::gen_domain_map_ext(&mut rng, &mx, Domain::Adversarial, 3, 15) else {
        ctx.count("skipped_no_domain_map");
        return;
    };
    let mode = gen::pick_mode(&mut rng, &map);
    let mname = mode_name(mode);
    let mut spec = sets::gen_setspec_wide_clock(&mut rng, mode, &map);
    if rng.chance(0.4) {
        let n = map.hit_objects.len() as u64;
        spec.passed = Some(rng.below(n * 2 + 2) as u32);
    }
    // keep the run bounded on maps with hour-long gaps
    if crate::maps::est_sections(&map, spec.clock.unwrap_or(0.75)) > 400_000.0 {
        ctx.count("skipped_too_many_sections");
        return;
    }
    let text = mc.text.as_str();
    let d = spec.to_difficulty(mode);
    let ctxs = format!("mode={mname} src={} settings=[{}]", mc.tag, spec.describe());

    let strains = match guard(|| api::strains_for_mode(&d, &map, mode)) {
        Ok(Ok(s)) => s,
        Ok(Err(_)) => {
            ctx.count("skipped_convert_error");
            return;
        }
        Err(p) => {
            ctx.violation(&format!("C16/{mname}/strains-panic/{}", p.sig()), &format!("{} at {} | {ctxs}", p.msg, p.loc), Some(text));
            return;
        }
    };
    let attrs = match guard(|| api::calc_for_mode(&d, &map, mode)) {
        Ok(Ok(a)) => a,
        _ => {
            ctx.count("skipped_reference_panic");
            return;
        }
    };
    ctx.count(&format!("mode:{mname}"));
    let vecs = strain_vecs(&strains);
    let len0 = vecs[0].1.len();
    let zeros = vecs[0].1.iter().filter(|&&x| x == 0.0).count();
    if zeros >= 10 {
        ctx.count("class:zero-run>=10");
    }
    if zeros >= 1000 {
        ctx.count("class:zero-run>=1000");
    }
    if map.hit_objects.first().is_some_and(|h| h.start_time < 0.0) {
        ctx.count("class:objects-before-time-zero");
    }
    ctx.max("max_sections", len0 as u64);
    if len0 >= 2 {
        ctx.nontrivial(hash_str(text) ^ hash_str(&spec.describe()) ^ (mode as u64));
    }

    // finite and non-negative peaks; equal section counts
    ctx.eval();
    for (name, v) in &vecs {
        if v.len() != len0 {
            ctx.violation(
                &format!("C16/{mname}/section-count/{name}"),
                &format!("skill {name} reports {} sections, {} reports {len0} | {ctxs}", v.len(), vecs[0].0),
                Some(text),
            );
            return;
        }
        if let Some((i, x)) = v.iter().enumerate().find(|(_, x)| !x.is_finite() || **x < 0.0 || (**x == 0.0 && x.is_sign_negative())) {
            ctx.violation(
                &format!("C16/{mname}/peak-domain/{name}"),
                &format!("skill {name} peak #{i} = {x:?} is not a finite non-negative number | {ctxs}"),
                Some(text),
            );
            return;
        }
    }
    if Strains::section_len(&strains) <= 0.0 {
        ctx.violation(&format!("C16/{mname}/section_len"), &ctxs, Some(text));
    }

    // re-aggregation
    ctx.eval();
    let (what, got, want) = match (&strains, &attrs) {
        (Strains::Catch(s), DifficultyAttributes::Catch(a)) => ("catch-stars", a.stars, aggregate(&s.movement, 0.94).sqrt() * 4.59),
        (Strains::Mania(s), DifficultyAttributes::Mania(a)) => ("mania-stars", a.stars, aggregate(&s.strains, 0.9) * 0.018),
        (Strains::Osu(s), DifficultyAttributes::Osu(a)) => {
            let sum: f64 = s.flashlight.iter().copied().sum();
            let mut r = sum.sqrt() * 0.0675;
            let bits = spec.mods.bits;
            if bits & TD != 0 {
                r = r.powf(0.8);
            }
            if bits & RX != 0 {
                r *= 0.7;
            } else if bits & AP != 0 {
                r *= 0.4;
            }
            ("osu-flashlight", a.flashlight, r)
        }
        (Strains::Taiko(_), DifficultyAttributes::Taiko(_)) => {
            ctx.sample(|| format!("{ctxs} sections={len0}"));
            return;
        }
        _ => {
            ctx.violation(&format!("C16/{mname}/mode-mismatch"), &ctxs, Some(text));
            return;
        }
    };
    let u = ulps(got, want);
    ctx.max("max_ulps_observed", if u == u64::MAX { 0 } else { u });
    if u > 4 {
        let e = &spec.mods.extra;
        let pred = if mode == GameMode::Mania && spec.mods.is_lazer_like() && (e.ho || e.invert || e.random.is_some_and(|s| s.is_some())) {
            "mods-transform-map(HO|IN|RD)"
        } else {
            "-"
        };
        ctx.violation(
            &format!("C16/{mname}/stars-vs-peaks/{what}/{pred}"),
            &format!(
                "reported {what} = {got:?}, re-aggregating the returned peaks gives {want:?} ({} ulps) | {ctxs} sections={len0}",
                if u == u64::MAX { "many".to_string() } else { u.to_string() }
            ),
            Some(text),
        );
    }
    ctx.sample(|| format!("{ctxs} sections={len0} zeros={zeros} {what}={got}"));
}
