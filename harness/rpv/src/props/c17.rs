//! C17 — attribute builder is self-consistent and matches what calculators use.

use rosu_pp::{
    any::DifficultyAttributes,
    model::{
        beatmap::{BeatmapAttributes, BeatmapAttributesBuilder, HitWindows},
        mode::GameMode,
    },
};

use crate::{
    api,
    gen::{self, Mix},
    maps::{dump, mode_name, Domain, MODES},
    rng::{hash_str, Rng},
    runner::{api as bracket, guard, Ctx},
    sets::{self, Da, LazerExtra, ModSpec, Repr, SetDomain, DT, EZ, HR, HT},
};

#[derive(Clone, Debug)]
struct Cfg {
    mode: GameMode,
    is_convert: bool,
    mods: ModSpec,
    clock: Option<f64>,
    ar: Option<(f32, bool)>,
    od: Option<(f32, bool)>,
    cs: Option<(f32, bool)>,
    hp: Option<(f32, bool)>,
    /// order in which mode / mods / clock_rate / ar / od / cs / hp are handed to the builder
    order: [u8; 7],
}

impl Cfg {
    fn builder(&self) -> BeatmapAttributesBuilder {
        // the setters are independent of each other: they are applied in the (random, per case) order `self.order`
        let mut b = BeatmapAttributesBuilder::new();
        for step in self.order {
            b = match step {
                0 => b.mode(self.mode, self.is_convert),
                1 => b.mods(self.mods.to_gamemods(self.mode)),
                2 => match self.clock {
                    Some(c) => b.clock_rate(c),
                    None => b,
                },
                3 => match self.ar {
                    Some((v, f)) => b.ar(v, f),
                    None => b,
                },
                4 => match self.od {
                    Some((v, f)) => b.od(v, f),
                    None => b,
                },
                5 => match self.cs {
                    Some((v, f)) => b.cs(v, f),
                    None => b,
                },
                _ => match self.hp {
                    Some((v, f)) => b.hp(v, f),
                    None => b,
                },
            };
        }
        b
    }

    fn build(&self) -> BeatmapAttributes {
        let b = self.builder();
        bracket("attributes::build", || b.build())
    }

    fn windows(&self) -> HitWindows {
        let b = self.builder();
        bracket("attributes::hit_windows", || b.hit_windows())
    }
}

fn gen_mods(rng: &mut Rng, with_lazer: bool) -> ModSpec {
    // the property quantifies over HR/EZ/DT/HT plus lazer DifficultyAdjust: nothing else is generated
    let bits = *rng.pick(&[0u32, HR, EZ, DT, HT, HR | DT, EZ | HT, HR | HT, EZ | DT]);
    if with_lazer && rng.chance(0.35) {
        let mut extra = LazerExtra::default();
        if rng.chance(0.6) {
            let v = |rng: &mut Rng| if rng.chance(0.5) { Some(rng.range(0, 110) as f64 / 10.0) } else { None };
            extra.da = Some(Da {
                ar: v(rng),
                cs: v(rng),
                hp: v(rng),
                od: v(rng),
                hro: None,
                scroll: None,
            });
        }
        if bits & (DT | HT) != 0 && rng.chance(0.6) {
            extra.speed_change = Some(if bits & DT != 0 { rng.range(101, 200) as f64 / 100.0 } else { rng.range(50, 99) as f64 / 100.0 });
        }
        ModSpec {
            bits,
            repr: Repr::Lazer,
            extra,
        }
    } else {
        ModSpec::bits(bits)
    }
}

fn gen_clock(rng: &mut Rng) -> Option<f64> {
    if rng.chance(0.3) {
        None
    } else {
        // 40 log-spaced rates in [0.01, 100]
        let k = rng.range(0, 39) as f64;
        Some(10f64.powf(-2.0 + 4.0 * k / 39.0))
    }
}

fn rel_close(a: f64, b: f64, tol: f64) -> bool {
    if a == b {
        return true;
    }
    (a - b).abs() <= tol * a.abs().max(b.abs()).max(1e-300)
}

#[allow(clippy::too_many_lines)]
pub fn case(ctx: &mut Ctx, idx: u64) {
    let mut rng = Rng::for_case(ctx.seed, "C17", idx);
    let mode = *rng.pick(&MODES);
    let mname = mode_name(mode);
    let is_convert = mode != GameMode::Osu && rng.chance(0.5);
    let mut order = [0u8, 1, 2, 3, 4, 5, 6];
    if rng.chance(0.7) {
        rng.shuffle(&mut order);
    }
    let base = Cfg {
        order,
        mode,
        is_convert,
        mods: gen_mods(&mut rng, true),
        clock: gen_clock(&mut rng),
        ar: Some(((rng.range(0, 100) as f32) / 10.0, false)),
        od: Some(((rng.range(0, 100) as f32) / 10.0, false)),
        cs: Some(((rng.range(0, 100) as f32) / 10.0, false)),
        hp: Some(((rng.range(0, 100) as f32) / 10.0, false)),
    };
    ctx.count(&format!("mode:{mname}"));
    ctx.nontrivial(hash_str(&format!("{base:?}")));
    let ctxs = format!("{base:?}");
    let viol = |ctx: &mut Ctx, sig: &str, msg: String| {
        ctx.violation(sig, &format!("{msg}\n base config: {ctxs}"), None);
    };

    // ---- A1: build().hit_windows == hit_windows(), over the full grid [-20, 20] step 0.25, both flags
    let r = guard(|| {
        let mut bad: Option<String> = None;
        let mut n = 0u64;
        for which in 0..2 {
            for flag in [false, true] {
                let mut i = -80;
                while i <= 80 {
                    let v = i as f32 * 0.25;
                    let mut c = base.clone();
                    if which == 0 {
                        c.ar = Some((v, flag));
                    } else {
                        c.od = Some((v, flag));
                    }
                    let b = c.build();
                    let w = c.windows();
                    n += 1;
                    if dump(&b.hit_windows) != dump(&w) && bad.is_none() {
                        bad = Some(format!("{}={v} with_mods={flag}: build().hit_windows={:?} hit_windows()={:?}", if which == 0 { "ar" } else { "od" }, b.hit_windows, w));
                    }
                    i += 1;
                }
            }
        }
        (n, bad)
    });
    match r {
        Ok((n, bad)) => {
            ctx.evals(n);
            if let Some(b) = bad {
                viol(ctx, &format!("C17/A1/{mname}"), b);
            }
        }
        Err(p) => {
            viol(ctx, &format!("C17/A1/{mname}/{}", p.sig()), format!("{} at {}", p.msg, p.loc));
            return;
        }
    }

    // ---- A2: with_mods = true => value reported back unchanged, inputs in [0, 10]; the other three attributes
    //          carry independent values and flags
    {
        let mut i = 0;
        'a2: while i <= 40 {
            let v = i as f32 * 0.25;
            for which in 0..4 {
                let other = |rng: &mut Rng| Some(((rng.range(0, 40) as f32) * 0.25, rng.chance(0.5)));
                let mut c = Cfg {
                    ar: other(&mut rng),
                    od: other(&mut rng),
                    cs: other(&mut rng),
                    hp: other(&mut rng),
                    ..base.clone()
                };
                match which {
                    0 => c.ar = Some((v, true)),
                    1 => c.od = Some((v, true)),
                    2 => c.cs = Some((v, true)),
                    _ => c.hp = Some((v, true)),
                }
                let b = c.build();
                ctx.eval();
                let (name, got) = match which {
                    0 => ("ar", b.ar),
                    1 => ("od", b.od),
                    2 => ("cs", b.cs),
                    _ => ("hp", b.hp),
                };
                if (got - f64::from(v)).abs() > 1e-6 {
                    viol(
                        ctx,
                        &format!("C17/A2/{mname}/{name}"),
                        format!("{name}({v}, with_mods=true) is reported back as {got} | cfg {c:?}"),
                    );
                    break 'a2;
                }
            }
            i += 1;
        }
    }

    // ---- A2b: the same round trip when the values arrive through a `Difficulty` (as the calculators do it), with
    //           lazer DifficultyAdjust values present in the mods: a value the caller supplied wins over the mod's
    {
        use rosu_pp::Difficulty;
        for _ in 0..6 {
            let v = (rng.range(0, 40) as f32) * 0.25;
            let mods = gen_mods(&mut rng, true);
            let mut d = Difficulty::new().mods(mods.to_gamemods(mode));
            if let Some(c) = base.clock {
                d = d.clock_rate(c);
            }
            let which = rng.below(4);
            d = match which {
                0 => d.ar(v, true),
                1 => d.od(v, true),
                2 => d.cs(v, true),
                _ => d.hp(v, true),
            };
            let b = bracket("attributes::build", || BeatmapAttributesBuilder::new().mode(mode, is_convert).difficulty(&d).build());
            let w = bracket("attributes::hit_windows", || BeatmapAttributesBuilder::new().mode(mode, is_convert).difficulty(&d).hit_windows());
            ctx.eval();
            let (name, got) = match which {
                0 => ("ar", b.ar),
                1 => ("od", b.od),
                2 => ("cs", b.cs),
                _ => ("hp", b.hp),
            };
            if (got - f64::from(v)).abs() > 1e-6 {
                viol(
                    ctx,
                    &format!("C17/A2/{mname}/{name}/via-difficulty"),
                    format!("Difficulty::{name}({v}, true) with mods {} is reported back as {got} by attributes().difficulty(&d).build()", mods.describe()),
                );
                break;
            }
            if dump(&b.hit_windows) != dump(&w) {
                viol(ctx, &format!("C17/A1/{mname}/via-difficulty"), format!("build().hit_windows != hit_windows() for {d:?}"));
                break;
            }
        }
    }

    // ---- A3: windows shrink monotonically as AR / OD grow (everything else fixed)
    for flag in [false, true] {
        let mut prev: Option<(f32, HitWindows)> = None;
        let mut i = -80;
        while i <= 80 {
            let v = i as f32 * 0.25;
            let c = Cfg {
                ar: Some((v, flag)),
                od: Some((v, flag)),
                ..base.clone()
            };
            let w = c.windows();
            ctx.eval();
            if let Some((pv, pw)) = &prev {
                let mut bad = None;
                if w.ar > pw.ar {
                    bad = Some(("ar", pw.ar, w.ar));
                }
                if w.od_great > pw.od_great {
                    bad = Some(("od_great", pw.od_great, w.od_great));
                }
                if let (Some(a), Some(b)) = (pw.od_ok, w.od_ok) {
                    if b > a {
                        bad = Some(("od_ok", a, b));
                    }
                }
                if let (Some(a), Some(b)) = (pw.od_meh, w.od_meh) {
                    if b > a {
                        bad = Some(("od_meh", a, b));
                    }
                }
                if let Some((name, a, b)) = bad {
                    viol(
                        ctx,
                        &format!("C17/A3/{mname}/{name}"),
                        format!("window {name} grows from {a} at value {pv} to {b} at value {v} (with_mods={flag})"),
                    );
                    break;
                }
            }
            prev = Some((v, w));
            i += 1;
        }
    }

    // ---- A4: window(rate r) * r == window(rate 1) for values given without mods; a value given with mods has a
    //          rate-independent window. The flag and value of the *other* attribute vary independently.
    {
        let r = base.clock.unwrap_or(1.5);
        for _ in 0..12 {
            let v = (rng.range(-80, 80) as f32) * 0.25;
            let other_v = (rng.range(0, 40) as f32) * 0.25;
            let other_flag = rng.chance(0.5);
            let flag = rng.chance(0.35);
            let od_case = rng.chance(0.5);
            let mk = |clock: f64| {
                if od_case {
                    Cfg {
                        clock: Some(clock),
                        od: Some((v, flag)),
                        ar: Some((other_v, other_flag)),
                        ..base.clone()
                    }
                } else {
                    Cfg {
                        clock: Some(clock),
                        ar: Some((v, flag)),
                        od: Some((other_v, other_flag)),
                        ..base.clone()
                    }
                }
            };
            let (wr, w1) = (mk(r).windows(), mk(1.0).windows());
            ctx.eval();
            let mut pairs: Vec<(&str, f64, f64)> = Vec::new();
            if od_case {
                if mode != GameMode::Mania {
                    pairs.push(("od_great", wr.od_great, w1.od_great));
                    if let (Some(a), Some(b)) = (wr.od_ok, w1.od_ok) {
                        pairs.push(("od_ok", a, b));
                    }
                    if let (Some(a), Some(b)) = (wr.od_meh, w1.od_meh) {
                        pairs.push(("od_meh", a, b));
                    }
                }
            } else {
                pairs.push(("ar", wr.ar, w1.ar));
            }
            for (name, a, b) in pairs {
                let ok = if flag { rel_close(a, b, 1e-12) } else { rel_close(a * r, b, 1e-12) };
                if !ok {
                    viol(
                        ctx,
                        &format!("C17/A4/{mname}/{name}/{}", if flag { "with-mods-rate-independent" } else { "inverse-scaling" }),
                        format!(
                            "{name}: value {v} with_mods={flag} (other attribute {other_v} with_mods={other_flag}): window at rate {r} = {a}, at rate 1 = {b}; expected {}",
                            if flag { "equal windows".to_string() } else { format!("{a} * {r} = {} == {b}", a * r) }
                        ),
                    );
                    break;
                }
            }
        }
    }

    // ---- A5: HR never easier, EZ never harder than no mod, values in [0, 10]
    {
        for _ in 0..10 {
            let v = (rng.range(0, 40) as f32) * 0.25;
            let rate_bits = base.mods.bits & (DT | HT);
            let mk = |bits: u32| Cfg {
                mods: ModSpec::bits(bits | rate_bits),
                ar: Some((v, false)),
                od: Some((v, false)),
                cs: Some((v, false)),
                hp: Some((v, false)),
                ..base.clone()
            };
            let (nm, hr, ez) = (mk(0).build(), mk(HR).build(), mk(EZ).build());
            ctx.eval();
            let vals = |b: &BeatmapAttributes| [("ar", b.ar), ("od", b.od), ("cs", b.cs), ("hp", b.hp)];
            for (((name, n), (_, h)), (_, e)) in vals(&nm).into_iter().zip(vals(&hr)).zip(vals(&ez)) {
                if h < n - 1e-9 || e > n + 1e-9 {
                    viol(ctx, &format!("C17/A5/{mname}/value/{name}"), format!("{name} input {v}: NM={n} HR={h} EZ={e}"));
                }
            }
            let wins = |b: &BeatmapAttributes| {
                [
                    ("ar", Some(b.hit_windows.ar)),
                    ("od_great", Some(b.hit_windows.od_great)),
                    ("od_ok", b.hit_windows.od_ok),
                    ("od_meh", b.hit_windows.od_meh),
                ]
            };
            for (((name, n), (_, h)), (_, e)) in wins(&nm).into_iter().zip(wins(&hr)).zip(wins(&ez)) {
                if let (Some(n), Some(h), Some(e)) = (n, h, e) {
                    if h > n + 1e-9 || e < n - 1e-9 {
                        viol(ctx, &format!("C17/A5/{mname}/window/{name}"), format!("window {name} input {v}: NM={n} HR={h} EZ={e}"));
                    }
                }
            }
        }
    }

    // ---- A6: what the calculators store equals the builder's output for the same map and settings
    let mx = Mix {
        realistic: true,
        max_objects: 12,
        ..Mix::default()
    };
    if let Some((mc, map)) = gen::gen_domain_map(&mut rng, &mx, Domain::Realistic) {
        let m = gen::pick_mode(&mut rng, &map);
        let spec = sets::gen_setspec(&mut rng, m, SetDomain::Documented);
        if crate::maps::est_sections(&map, spec.clock.unwrap_or(0.75).clamp(0.01, 100.0)) > 50_000.0 {
            return;
        }
        let d = spec.to_difficulty(m);
        let gm = spec.mods.to_gamemods(m);
        if let (Ok(Ok(attrs)), Ok(Ok(conv))) = (guard(|| api::calc_for_mode(&d, &map, m)), guard(|| api::convert(&map, m, &gm))) {
            let b_via_difficulty = bracket("attributes::build", || conv.attributes().difficulty(&d).build());
            // the same settings handed to the builder through its own setters
            let b_via_setters = bracket("attributes::build", || {
                let mut bb = conv.attributes().mods(gm.clone());
                if let Some(c) = spec.clock {
                    // the property quantifies over custom clock rates in [0.01, 100] (Difficulty clamps to that range itself)
                    bb = bb.clock_rate(c.clamp(0.01, 100.0));
                }
                if let Some((v, f)) = spec.ar {
                    bb = bb.ar(v, f);
                }
                if let Some((v, f)) = spec.od {
                    bb = bb.od(v, f);
                }
                if let Some((v, f)) = spec.cs {
                    bb = bb.cs(v, f);
                }
                if let Some((v, f)) = spec.hp {
                    bb = bb.hp(v, f);
                }
                bb.build()
            });
            // every calculator that stores these values: the one-shot calculation, the gradual calculator on the
            // unconverted map (first and last value) and the difficulty embedded in a performance result
            let mut outputs: Vec<(&str, DifficultyAttributes)> = vec![("one-shot", attrs)];
            if let Ok(Ok(mut g)) = guard(|| api::gradual(spec.without_passed().to_difficulty(m), &map, m)) {
                if let Ok(Some(first)) = guard(|| api::g_next(&mut g)) {
                    outputs.push(("gradual-first", first));
                }
                if let Ok(Some(last)) = guard(|| g.last()) {
                    outputs.push(("gradual-last", last));
                }
            }
            if let Ok(p) = guard(|| api::perf_calc(rosu_pp::Performance::new(&map).difficulty(d.clone()).mode_or_ignore(m))) {
                outputs.push(("performance-embedded", p.difficulty_attributes()));
            }
            // ... and in the result of a performance calculator that was configured through its OWN setters (the mode-agnostic
            // enum forwards each of them to the mode's builder): on the converted map, and on the unconverted map after the
            // switch (not for mania, whose conversion depends on the mods present at the switch)
            let own_setters = |mut p: rosu_pp::Performance<'_>| {
                p = p.mods(gm.clone());
                if let Some(c) = spec.clock {
                    p = p.clock_rate(c.clamp(0.01, 100.0));
                }
                if let Some((v, f)) = spec.od {
                    p = p.od(v, f);
                }
                if let Some((v, f)) = spec.ar {
                    p = p.ar(v, f);
                }
                if let Some((v, f)) = spec.cs {
                    p = p.cs(v, f);
                }
                if let Some((v, f)) = spec.hp {
                    p = p.hp(v, f);
                }
                api::perf_calc(p)
            };
            if let Ok(p) = guard(|| own_setters(rosu_pp::Performance::new(&conv))) {
                outputs.push(("performance(converted).own-setters", p.difficulty_attributes()));
            }
            if map.mode == GameMode::Osu && m != GameMode::Mania {
                if let Ok(p) = guard(|| own_setters(rosu_pp::Performance::new(&map).mode_or_ignore(m))) {
                    outputs.push(("performance.switch.own-setters", p.difficulty_attributes()));
                }
            }
            let builders = [("difficulty(&d)", &b_via_difficulty), ("own-setters", &b_via_setters)];
            for (label, attrs) in outputs.iter().flat_map(|o| builders.iter().map(move |bb| (format!("{}/builder:{}", o.0, bb.0), &o.1, bb.1))).map(|(l, a, b)| ((l, b), a)) {
                let (label, b) = label;
                ctx.eval();
                ctx.count("A6_checks");
                let pairs: Vec<(&str, f64, f64)> = match attrs {
                    DifficultyAttributes::Osu(a) => vec![
                        ("ar", a.ar, b.ar),
                        ("hp", a.hp, b.hp),
                        ("great_hit_window", a.great_hit_window, b.hit_windows.od_great),
                        ("ok_hit_window", a.ok_hit_window, b.hit_windows.od_ok.unwrap_or(f64::NAN)),
                        ("meh_hit_window", a.meh_hit_window, b.hit_windows.od_meh.unwrap_or(f64::NAN)),
                        ("od()", a.od(), b.od),
                    ],
                    DifficultyAttributes::Taiko(a) => vec![
                        ("great_hit_window", a.great_hit_window, b.hit_windows.od_great),
                        ("ok_hit_window", a.ok_hit_window, b.hit_windows.od_ok.unwrap_or(f64::NAN)),
                    ],
                    DifficultyAttributes::Catch(a) => vec![("ar", a.ar, b.ar)],
                    DifficultyAttributes::Mania(_) => vec![],
                };
                for (name, x, y) in pairs {
                    if x.to_bits() != y.to_bits() {
                        ctx.violation(
                            &format!("C17/A6/{}/{name}/{label}", mode_name(m)),
                            &format!("difficulty attributes ({label}) store {name} = {x:?}, the builder gives {y:?} | settings=[{}]", spec.describe()),
                            Some(&mc.text),
                        );
                    }
                }
            }
        }
    }
    ctx.sample(|| ctxs.clone());
}
