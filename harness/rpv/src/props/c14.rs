//! C14 — reported object counts and max combo account for exactly the objects of the map.

use rosu_pp::{
    any::DifficultyAttributes,
    model::{hit_object::HitObjectKind, mode::GameMode},
    Beatmap,
};

use crate::{
    api,
    gen::{self, Mix},
    maps::{dump, mode_name, unit_count, Domain},
    rng::{hash_str, Rng},
    runner::{guard, Ctx},
    sets::{self, SetSpec},
};

fn counts(a: &DifficultyAttributes) -> Vec<(&'static str, u64)> {
    match a {
        DifficultyAttributes::Osu(a) => vec![
            ("n_circles", a.n_circles.into()),
            ("n_sliders", a.n_sliders.into()),
            ("n_spinners", a.n_spinners.into()),
            ("n_large_ticks", a.n_large_ticks.into()),
            ("max_combo", a.max_combo.into()),
        ],
        DifficultyAttributes::Taiko(a) => vec![("max_combo", a.max_combo.into())],
        DifficultyAttributes::Catch(a) => vec![
            ("n_fruits", a.n_fruits.into()),
            ("n_droplets", a.n_droplets.into()),
            ("n_tiny_droplets", a.n_tiny_droplets.into()),
            ("max_combo", a.max_combo().into()),
        ],
        DifficultyAttributes::Mania(a) => vec![
            ("n_objects", a.n_objects.into()),
            ("n_hold_notes", a.n_hold_notes.into()),
            ("max_combo", a.max_combo.into()),
        ],
    }
}

fn is_convert_flag(a: &DifficultyAttributes) -> Option<bool> {
    match a {
        DifficultyAttributes::Osu(_) => None,
        DifficultyAttributes::Taiko(a) => Some(a.is_convert),
        DifficultyAttributes::Catch(a) => Some(a.is_convert),
        DifficultyAttributes::Mania(a) => Some(a.is_convert),
    }
}

/// Independent reference counts from public fields of the converted map for a prefix of `n`
/// units. Returns (label, expected) pairs that are decidable from the fields.
fn reference(conv: &Beatmap, mode: GameMode, spec: &SetSpec, n: Option<u32>) -> Vec<(&'static str, u64)> {
    let total = conv.hit_objects.len();
    let take = n.map_or(total, |n| (n as usize).min(total));
    let mut v = Vec::new();
    match mode {
        GameMode::Osu => {
            let pre = &conv.hit_objects[..take];
            v.push(("n_circles", pre.iter().filter(|h| h.is_circle()).count() as u64));
            v.push(("n_sliders", pre.iter().filter(|h| h.is_slider()).count() as u64));
            v.push(("n_spinners", pre.iter().filter(|h| h.is_spinner() || h.is_hold_note()).count() as u64));
        }
        GameMode::Taiko => {
            let hits = conv.hit_objects.iter().zip(conv.hit_sounds.iter()).filter(|(h, _)| h.is_circle()).count();
            v.push(("max_combo", n.map_or(hits, |n| (n as usize).min(hits)) as u64));
        }
        GameMode::Mania => {
            let e = &spec.mods.extra;
            let lazer = spec.mods.is_lazer_like();
            if lazer && e.invert && !e.ho {
                // Invert replaces the objects of every column by one hold note per gap between two consecutive "locations"
                // (a note contributes one location, a hold note its head and its tail - equal times included): a column with
                // L locations ends up with L - 1 objects, all of them hold notes
                let cs = conv.cs;
                let div = 512.0 / cs;
                let mut per_col = vec![0usize; cs as usize];
                for h in &conv.hit_objects {
                    let c = (h.pos.x / div).floor().min(cs - 1.0) as usize;
                    let w = if h.is_circle() {
                        1
                    } else if h.is_hold_note() {
                        2
                    } else {
                        0
                    };
                    if let Some(slot) = per_col.get_mut(c) {
                        *slot += w;
                    }
                }
                let total_inv: usize = per_col.iter().map(|l| l.saturating_sub(1)).sum();
                let k = n.map_or(total_inv, |n| (n as usize).min(total_inv)) as u64;
                v.push(("n_objects", k));
                v.push(("n_hold_notes", k));
            } else if lazer && e.invert {
                // (HoldOff and Invert together: only the generic clauses)
            } else if lazer && e.ho {
                let kept = conv.hit_objects.iter().filter(|h| h.is_circle() || h.is_hold_note()).count();
                v.push(("n_objects", n.map_or(kept, |n| (n as usize).min(kept)) as u64));
                v.push(("n_hold_notes", 0));
            } else {
                let pre = &conv.hit_objects[..take];
                v.push(("n_objects", take as u64));
                v.push(("n_hold_notes", pre.iter().filter(|h| !h.is_circle()).count() as u64));
            }
        }
        GameMode::Catch => {
            if n.is_none() {
                let fruits: usize = conv
                    .hit_objects
                    .iter()
                    .map(|h| match &h.kind {
                        HitObjectKind::Circle => 1,
                        HitObjectKind::Slider(s) => s.repeats + 2,
                        _ => 0,
                    })
                    .sum();
                v.push(("n_fruits", fruits as u64));
            }
        }
    }
    v
}

#[allow(clippy::too_many_lines)]
pub fn case(ctx: &mut Ctx, idx: u64) {
    let mut rng = Rng::for_case(ctx.seed, "C14", idx);
    let max_objects = if ctx.thorough() { 120 } else { 50 };
    let mx = Mix {
        realistic: true,
        max_objects,
        ..Mix::default()
    };
    let Some((mc, map)) = gen::gen_domain_map_ext(&mut rng, &mx, Domain::Realistic, 3, 15) else {
        ctx.count("skipped_no_domain_map");
        return;
    };
    let mode = gen::pick_mode(&mut rng, &map);
    let mname = mode_name(mode);
    let mut spec = sets::gen_setspec_wide(&mut rng, mode, &map).without_passed();
    // make reflections / mania transformations frequent
    if rng.chance(0.3) {
        spec.mods.repr = sets::Repr::Lazer;
        if mode == GameMode::Mania {
            spec.mods.extra.ho = rng.chance(0.4);
            spec.mods.extra.invert = rng.chance(0.3);
            if rng.chance(0.4) {
                spec.mods.extra.random = Some(Some(rng.range(0, 9999) as f64));
            }
            if rng.chance(0.2) && spec.mods.bits & sets::KEY_BITS_MASK == 0 {
                spec.mods.extra.ten_keys = true;
            }
            // HoldOff / Invert / 10K have no legacy bit: hand them over as GameModsIntermode (owned or borrowed) as well
            let e = &spec.mods.extra;
            if e.random.is_none() && e.da.is_none() && e.speed_change.is_none() && e.cl.is_none_or(|c| c.is_none()) && e.mirror.is_none() {
                spec.mods.repr = *rng.pick(&[sets::Repr::Lazer, sets::Repr::LazerAsIntermode, sets::Repr::LazerAsIntermodeRef]);
            }
        } else {
            spec.mods.extra.mirror = Some(rng.pick(&[None, Some("1".to_string()), Some("2".to_string())]).clone());
        }
    }
    if spec.mods.is_lazer_like() && spec.mods.repr != sets::Repr::Lazer {
        ctx.count("mods:lazer-set-as-intermode");
    }
    let text = mc.text.as_str();
    let gm = spec.mods.to_gamemods(mode);
    let Ok(Ok(conv)) = guard(|| api::convert(&map, mode, &gm)) else {
        ctx.count("skipped_convert_error");
        return;
    };
    let d = spec.to_difficulty(mode);
    let full = match guard(|| api::calc_for_mode(&d, &map, mode)) {
        Ok(Ok(a)) => a,
        Ok(Err(_)) => return,
        Err(p) => {
            ctx.violation(&format!("C14/{mname}/reference-panic/{}", p.sig()), &format!("{} at {} | {}", p.msg, p.loc, spec.describe()), Some(text));
            return;
        }
    };
    ctx.count(&format!("mode:{mname}"));
    if map.mode != mode {
        ctx.count("class:convert");
    }
    let total = unit_count(&full);
    if total >= 2 {
        ctx.nontrivial(hash_str(text) ^ hash_str(&spec.describe()) ^ (mode as u64));
    }
    let ctxs = format!("mode={mname} src={} settings=[{}]", mc.tag, spec.describe());

    // is_convert flag
    ctx.eval();
    if let Some(f) = is_convert_flag(&full) {
        if f != (map.mode != mode) {
            ctx.violation(&format!("C14/{mname}/is_convert"), &format!("is_convert={f} but source mode {:?} | {ctxs}", map.mode), Some(text));
        }
    }

    // reference for the full calculation
    ctx.eval();
    let have = counts(&full);
    for (label, want) in reference(&conv, mode, &spec, None) {
        let got = have.iter().find(|(l, _)| *l == label).map(|(_, v)| *v);
        if got != Some(want) {
            ctx.violation(
                &format!("C14/{mname}/full-count/{label}"),
                &format!("full calculation reports {label}={got:?}, the converted map contains {want} | {ctxs}\n attrs: {}", dump(&full)),
                Some(text),
            );
        }
    }
    if let DifficultyAttributes::Osu(a) = &full {
        if u64::from(a.n_objects()) != conv.hit_objects.len() as u64 {
            ctx.violation(
                &format!("C14/{mname}/full-count/n_objects"),
                &format!("circles+sliders+spinners={} but the map has {} objects | {ctxs}", a.n_objects(), conv.hit_objects.len()),
                Some(text),
            );
        }
    }

    // prefixes
    let ns: Vec<u32> = if total <= 40 {
        (0..=total + 2).collect()
    } else {
        let mut v: Vec<u32> = vec![0, 1, 2, 3, total - 1, total, total + 1, total + 2, u32::MAX];
        for _ in 0..24 {
            v.push(rng.below(u64::from(total) + 1) as u32);
        }
        v.sort_unstable();
        v.dedup();
        v
    };
    let mut prev: Option<(u32, Vec<(&'static str, u64)>)> = None;
    for n in ns {
        let dn = spec.with_passed(n).to_difficulty(mode);
        let a = match guard(|| api::calc_for_mode(&dn, &map, mode)) {
            Ok(Ok(a)) => a,
            Ok(Err(_)) => return,
            Err(p) => {
                ctx.violation(
                    &format!("C14/{mname}/prefix-panic/{}", p.sig()),
                    &format!("passed_objects({n}): {} at {} | {ctxs}", p.msg, p.loc),
                    Some(text),
                );
                return;
            }
        };
        ctx.eval();
        let c = counts(&a);
        // counted(n) == min(n, total)
        let counted = unit_count(&a);
        if counted != n.min(total) {
            ctx.violation(
                &format!("C14/{mname}/counted-min"),
                &format!("passed_objects({n}) counts {counted}, expected min({n}, {total}) | {ctxs}\n attrs: {}", dump(&a)),
                Some(text),
            );
            return;
        }
        // reference counts from the converted map
        for (label, want) in reference(&conv, mode, &spec, Some(n)) {
            let got = c.iter().find(|(l, _)| *l == label).map(|(_, v)| *v);
            if got != Some(want) {
                ctx.violation(
                    &format!("C14/{mname}/prefix-count/{label}"),
                    &format!("passed_objects({n}) reports {label}={got:?}, the first objects of the converted map contain {want} | {ctxs}"),
                    Some(text),
                );
                return;
            }
        }
        // monotone
        if let Some((pn, pc)) = &prev {
            for ((l, x), (_, y)) in pc.iter().zip(c.iter()) {
                if y < x {
                    ctx.violation(
                        &format!("C14/{mname}/monotone/{l}"),
                        &format!("{l} decreases from {x} at n={pn} to {y} at n={n} | {ctxs}"),
                        Some(text),
                    );
                    return;
                }
            }
        }
        // n >= total  ==> same as unlimited
        if n >= total && dump(&a) != dump(&full) {
            ctx.violation(
                &format!("C14/{mname}/beyond-total"),
                &format!("passed_objects({n}) with total {total} differs from the unlimited calculation | {ctxs}\n limited  : {}\n unlimited: {}", dump(&a), dump(&full)),
                Some(text),
            );
            return;
        }
        prev = Some((n, c));
    }
    ctx.sample(|| format!("{ctxs} total_units={total} objects={}", conv.hit_objects.len()));
}
