//! C05 — no panic, abort or hang on any decodable map that is not suspicious.
//!
//! The runtime itself is the oracle: panic hook, process exit status (attributed by the driver),
//! the per-call CPU watchdog and the address-space limit. This monitor only drives the sweep and
//! applies the domain filter.

use rosu_pp::{any::ScoreState, model::mode::GameMode, Beatmap, Performance};

use crate::{
    gen::{self, Mix},
    maps::{self, mode_name, Domain},
    osu,
    props::c03,
    rng::{hash_str, Rng},
    runner::{api, guard, last_call_heap, truncate, Ctx, PanicInfo},
    sets::{self, SetDomain},
};

thread_local! {
    /// estimated number of 400 ms strain sections of the current map at the current clock rate (0 before the sweep of a mode)
    static EST_SECTIONS: std::cell::Cell<f64> = const { std::cell::Cell::new(0.0) };
}

/// Memory budget of a single API call: legitimate heap use is a small constant (decoded map, nested slider objects, bounded
/// by the domain filter) plus the strain peaks, which are proportional to the number of sections (40 B/section measured for
/// `strains()` of the five taiko skills). The budget leaves a factor of four on the per-section part; the largest share of the
/// budget actually used on the unchanged tree is reported in the evidence (`max_heap_permille_of_budget`).
const HEAP_BASE: u64 = 256 << 20;
const HEAP_PER_SECTION: f64 = 160.0;

fn report(ctx: &mut Ctx, what: &str, mode: &str, p: &PanicInfo, detail: &str, text: &str) {
    ctx.violation(
        &format!("C05/{}", p.sig()),
        &format!("{what} ({mode}) panicked: {} at {} | {detail}", p.msg, p.loc),
        Some(text),
    );
}

/// Run `f` as one bracketed API call; report a panic. Returns the value if it returned normally.
fn step<T>(ctx: &mut Ctx, label: &'static str, mode: &str, detail: &str, text: &str, f: impl FnOnce() -> T) -> Option<T> {
    ctx.eval();
    match guard(|| api(label, f)) {
        Ok(v) => {
            let heap = last_call_heap();
            let budget = HEAP_BASE + (HEAP_PER_SECTION * EST_SECTIONS.with(std::cell::Cell::get)) as u64;
            ctx.max("max_call_heap_kib", heap >> 10);
            ctx.max("max_heap_permille_of_budget", heap.saturating_mul(1000) / budget);
            if heap > budget {
                ctx.violation(
                    &format!("C05/mem@{label}/{mode}"),
                    &format!("{label} ({mode}) needed {} MiB of heap, budget for this map and clock rate is {} MiB | {detail}", heap >> 20, budget >> 20),
                    Some(text),
                );
            }
            Some(v)
        }
        Err(p) => {
            report(ctx, label, mode, &p, detail, text);
            None
        }
    }
}

#[allow(clippy::too_many_lines)]
pub fn case(ctx: &mut Ctx, idx: u64) {
    let mut rng = Rng::for_case(ctx.seed, "C05", idx);
    EST_SECTIONS.with(|c| c.set(0.0));
    let debug_build = cfg!(debug_assertions);
    let max_objects = if ctx.thorough() { 400 } else { 150 };
    // input source
    let src = rng.below(10);
    let mc = match src {
        0 => {
            // decodable part of G-bytes
            let seed_text = gen::gen_map(
                &mut rng,
                &Mix {
                    realistic: false,
                    max_objects: 60,
                    ..Mix::default()
                },
            )
            .text;
            let b = osu::noise_bytes(&mut rng, &seed_text);
            gen::MapCase {
                text: String::from_utf8_lossy(&b).into_owned(),
                tag: "bytes".into(),
            }
        }
        1..=4 => gen::gen_map(
            &mut rng,
            &Mix {
                realistic: true,
                max_objects,
                ..Mix::default()
            },
        ),
        _ => gen::gen_map(
            &mut rng,
            &Mix {
                realistic: false,
                max_objects,
                profiles: Some(vec![
                    osu::Profile::Gaps,
                    osu::Profile::Limits,
                    osu::Profile::SliderZoo,
                    osu::Profile::Ties,
                    osu::Profile::Gaps,
                    osu::Profile::Dense,
                    osu::Profile::Late,
                    osu::Profile::Late,
                ]),
                ..Mix::default()
            },
        ),
    };
    let text = mc.text.as_str();
    let Some(map) = step(ctx, "decode", "-", &mc.tag, text, || Beatmap::from_bytes(text.as_bytes())) else { return };
    let Ok(map) = map else {
        ctx.count("undecodable");
        return;
    };
    if let Some(why) = maps::out_of_domain(&map, Domain::Adversarial, 400) {
        ctx.count(&format!("out_of_domain:{why}"));
        return;
    }
    let realistic = maps::out_of_domain(&map, Domain::Realistic, 400).is_none();
    ctx.count(if realistic { "domain:realistic" } else { "domain:adversarial-only" });
    if debug_build && !realistic {
        ctx.count("skipped_debug_build_needs_realistic_map");
        return;
    }
    ctx.count(&format!("src:{}", mc.tag.split(':').next().unwrap_or("x")));
    ctx.count(&format!("native:{}", mode_name(map.mode)));
    if map.hit_objects.len() >= 2 {
        ctx.nontrivial(hash_str(text));
    }
    let n_obj = map.hit_objects.len() as u32;

    let _ = step(ctx, "bpm", "-", &mc.tag, text, || map.bpm());
    let _ = step(ctx, "check_suspicion", "-", &mc.tag, text, || map.check_suspicion().is_ok());

    let modes = maps::reachable_modes(&map);
    for &mode in &modes {
        let mname = mode_name(mode);
        // settings over the documented ranges (release) / game ranges (debug build: realistic domain)
        let dom = if debug_build { SetDomain::Game } else { SetDomain::Documented };
        let mut spec = sets::gen_setspec(&mut rng, mode, dom);
        // mania has mods that exist only as lazer mods and rewrite the whole map (Random with a seed, HoldOff, Invert); the
        // shared generator reaches each of them in ~4 % of the sweeps, too thin once it has to meet a rare map class as well
        // (e.g. native maps with 11-18 keys): a third of the mania sweeps carries at least one of them
        if mode == rosu_pp::model::mode::GameMode::Mania && rng.chance(0.35) {
            spec.mods.repr = sets::Repr::Lazer;
            match rng.below(3) {
                0 => spec.mods.extra.random = Some(Some(rng.range(0, 100_000) as f64)),
                1 => spec.mods.extra.invert = true,
                _ => spec.mods.extra.ho = true,
            }
            if rng.chance(0.3) {
                spec.mods.extra.random = Some(Some(rng.range(0, 100_000) as f64));
            }
            ctx.count("class:mania-sweep-with-lazer-only-map-rewriting-mod");
        }
        if rng.chance(0.3) {
            spec.passed = Some(match rng.below(5) {
                0 => 0,
                1 => 1,
                2 => n_obj,
                3 => u32::MAX,
                _ => rng.below(u64::from(n_obj) + 2) as u32,
            });
        }
        let clock = spec.clock.unwrap_or(0.75).clamp(0.01, 100.0);
        let sections = maps::est_sections(&map, clock);
        let heavy = sections > 1e6;
        EST_SECTIONS.with(|c| c.set(sections));
        if heavy {
            ctx.count("class:>1e6-sections");
        }
        ctx.max("max_est_sections", sections as u64);
        let detail = format!("src={} settings=[{}] objects={n_obj} est_sections={sections:.0}", mc.tag, spec.describe());
        let d = spec.to_difficulty(mode);
        let gm = spec.mods.to_gamemods(mode);
        ctx.count(&format!("sweep:{mname}"));
        if mode == rosu_pp::model::mode::GameMode::Mania && map.mode == mode && map.cs > 10.0 {
            ctx.count("class:native-mania-more-than-10-keys");
            if matches!(spec.mods.extra.random, Some(Some(_))) && spec.mods.is_lazer_like() {
                ctx.count("class:native-mania-more-than-10-keys+random-seed");
            }
        }

        // conversions (3 entry points)
        let conv = step(ctx, "convert", mname, &detail, text, || map.clone().convert(mode, &gm));
        let _ = step(ctx, "convert_ref", mname, &detail, text, || map.convert_ref(mode, &gm).map(|c| c.hit_objects.len()));
        let _ = step(ctx, "convert_mut", mname, &detail, text, || {
            let mut m = map.clone();
            m.convert_mut(mode, &gm).is_ok()
        });
        let Some(Ok(conv)) = conv else { continue };
        if map.mode != mode {
            // a converted map must itself stay inside the domain to be swept as a map of its own
            let _ = step(ctx, "check_suspicion", mname, &detail, text, || conv.check_suspicion().is_ok());
        }

        // difficulty / strains
        let attrs = step(ctx, "difficulty", mname, &detail, text, || d.calculate(&conv));
        let _ = step(ctx, "difficulty_for_mode", mname, &detail, text, || crate::api::calc_for_mode(&d, &map, mode).map(|_| ()));
        if !heavy || rng.chance(0.3) {
            let _ = step(ctx, "strains", mname, &detail, text, || d.strains(&conv));
        }
        let _ = step(ctx, "attributes", mname, &detail, text, || {
            let b = conv.attributes().difficulty(&d);
            (b.hit_windows(), b.build())
        });

        // gradual difficulty with random strides
        let dg = spec.for_gradual().to_difficulty(mode);
        if let Some(Ok(mut g)) = step(ctx, "gradual_difficulty::new", mname, &detail, text, || crate::api::gradual(dg.clone(), &map, mode)) {
            let max_steps = if heavy { 12 } else { 80 };
            for _ in 0..max_steps {
                let k = c03::gen_k(&mut rng, 6);
                let r = if rng.chance(0.5) {
                    step(ctx, "gradual_difficulty::next", mname, &detail, text, || g.next().is_some())
                } else {
                    step(ctx, "gradual_difficulty::nth", mname, &detail, text, || g.nth(k).is_some())
                };
                match r {
                    Some(true) => {}
                    _ => break,
                }
            }
            let _ = step(ctx, "gradual_difficulty::len", mname, &detail, text, || (g.len(), g.size_hint()));
            // a few calls after exhaustion
            if !heavy {
                let _ = step(ctx, "gradual_difficulty::last", mname, &detail, text, || g.by_ref().last().is_some());
                let _ = step(ctx, "gradual_difficulty::next", mname, &detail, text, || g.next().is_some());
                let _ = step(ctx, "gradual_difficulty::len", mname, &detail, text, || g.len());
            }
        }

        // gradual performance with random states
        if let Some(Ok(mut g)) = step(ctx, "gradual_performance::new", mname, &detail, text, || crate::api::gradual_perf(dg.clone(), &map, mode)) {
            let max_steps = if heavy { 6 } else { 24 };
            for _ in 0..max_steps {
                let st: ScoreState = sets::gen_state(&mut rng, n_obj * 2 + 2);
                let k = c03::gen_k(&mut rng, 5);
                let r = match rng.below(5) {
                    0 | 1 => step(ctx, "gradual_performance::next", mname, &detail, text, || g.next(st).is_some()),
                    2 | 3 => step(ctx, "gradual_performance::nth", mname, &detail, text, || g.nth(st, k).is_some()),
                    _ => step(ctx, "gradual_performance::last", mname, &detail, text, || g.last(st).is_some()),
                };
                match r {
                    Some(true) => {}
                    _ => break,
                }
            }
            let _ = step(ctx, "gradual_performance::len", mname, &detail, text, || g.len());
        }

        // performance with accuracy / hit-result subsets / misses / combos up to 2N+2
        if let Some(attrs) = attrs {
            let n_sc = if heavy { 2 } else { 6 };
            for k in 0..n_sc {
                let sc = sets::gen_scorespec(&mut rng, n_obj.max(1) * 2 + 2);
                let scd = format!("{detail} score={}", truncate(&sc.describe(), 400));
                if k == 0 {
                    // from the map (computes the difficulty internally)
                    let _ = step(ctx, "performance(map)", mname, &scd, text, || sc.apply(Performance::new(&conv).difficulty(d.clone())).calculate().pp());
                } else {
                    let a = attrs.clone();
                    let _ = step(ctx, "performance(attrs)", mname, &scd, text, || sc.apply(Performance::new(a).difficulty(d.clone())).calculate().pp());
                }
                let a = attrs.clone();
                let _ = step(ctx, "generate_state", mname, &scd, text, || {
                    let mut p = sc.apply(Performance::new(a).difficulty(d.clone()));
                    p.generate_state()
                });
            }
            // Performance with a mode switch on the unconverted map
            if map.mode == GameMode::Osu {
                let _ = step(ctx, "performance::try_mode", mname, &detail, text, || {
                    Performance::new(&map).difficulty(d.clone()).try_mode(mode).map(|p| p.calculate().pp()).ok()
                });
            }
        }
    }
    ctx.sample(|| format!("src={} native={:?} objects={n_obj} realistic={realistic} modes={}", mc.tag, map.mode, modes.len()));
}
