//! C12 — generated score states are consistent, stable and what calculate() uses.

use rosu_pp::{
    any::{DifficultyAttributes, HitResultPriority, ScoreState},
    catch::CatchDifficultyAttributes,
    mania::ManiaDifficultyAttributes,
    model::mode::GameMode,
    osu::OsuDifficultyAttributes,
    taiko::TaikoDifficultyAttributes,
    Difficulty, Performance,
};

use crate::{
    maps::{dump, mode_name},
    rng::{hash_str, Rng},
    runner::{api as bracket, guard, Ctx},
    sets::{LazerExtra, ModSpec, Repr},
};

#[derive(Clone, Debug)]
pub struct In {
    pub acc: Option<f64>,
    pub combo: Option<u32>,
    pub misses: Option<u32>,
    /// mode-specific results, best to worst. osu: n300 n100 n50; taiko: n300 n100;
    /// mania: n320 n300 n200 n100 n50; catch: fruits droplets tiny tiny_misses
    pub r: Vec<Option<u32>>,
    pub worst: bool,
    pub lazer: Option<bool>,
    pub cl: bool,
    /// osu! only: the Classic mod's `no_slider_head_accuracy` setting (None = the mod's default, which is "true")
    pub cl_setting: Option<bool>,
    /// hand the lazer flag to `Performance::lazer` instead of `Difficulty::lazer`
    pub lazer_via_setter: bool,
    /// how the Classic mod travels: 0 = lazer GameMods, 1 = GameModsIntermode, 2 = &GameModsIntermode (only without setting)
    pub cl_repr: u8,
    /// osu! only: provided large tick / small tick / slider end hits
    pub ticks: [Option<u32>; 3],
    pub passed: Option<u32>,
}

pub fn n_results(mode: GameMode) -> usize {
    match mode {
        GameMode::Osu => 3,
        GameMode::Taiko => 2,
        GameMode::Mania => 5,
        GameMode::Catch => 4,
    }
}

/// Consistent shapes from public struct literals.
pub fn gen_shape(rng: &mut Rng, mode: GameMode, small: bool) -> DifficultyAttributes {
    let n = |rng: &mut Rng, hi: u64| -> u32 {
        if small {
            rng.below(hi.min(7)) as u32
        } else {
            match rng.below(3) {
                0 => rng.below(40) as u32,
                1 => rng.below(hi + 1) as u32,
                _ => rng.below(400) as u32,
            }
        }
    };
    let stars = rng.frange(0.0, 9.0);
    match mode {
        GameMode::Osu => {
            let n_circles = n(rng, 3000);
            let n_sliders = if small { rng.below(4) as u32 } else { n(rng, 800) };
            let n_spinners = if small { rng.below(3) as u32 } else { rng.below(5) as u32 };
            let n_large_ticks = if n_sliders == 0 {
                0
            } else if small {
                rng.below(3) as u32
            } else {
                rng.below(u64::from(n_sliders) * 3 + 1) as u32
            };
            DifficultyAttributes::Osu(OsuDifficultyAttributes {
                aim: stars * 0.5,
                aim_difficult_slider_count: f64::from(n_sliders) * 0.3,
                speed: stars * 0.45,
                flashlight: stars * 0.3,
                slider_factor: 0.98,
                speed_note_count: f64::from(n_circles) * 0.4,
                aim_difficult_strain_count: 1.0 + f64::from(n_circles + n_sliders) * 0.2,
                speed_difficult_strain_count: 1.0 + f64::from(n_circles) * 0.2,
                ar: 9.0,
                great_hit_window: 25.0,
                ok_hit_window: 70.0,
                meh_hit_window: 110.0,
                hp: 5.0,
                n_circles,
                n_sliders,
                n_large_ticks,
                n_spinners,
                stars,
                max_combo: n_circles + n_spinners + n_sliders * 2 + n_large_ticks,
            })
        }
        GameMode::Taiko => DifficultyAttributes::Taiko(TaikoDifficultyAttributes {
            stamina: stars * 0.5,
            rhythm: stars * 0.2,
            color: stars * 0.3,
            reading: stars * 0.1,
            great_hit_window: 25.0,
            ok_hit_window: 60.0,
            mono_stamina_factor: 0.3,
            stars,
            max_combo: if small { rng.below(13) as u32 } else { n(rng, 3000) },
            is_convert: rng.chance(0.3),
        }),
        GameMode::Catch => DifficultyAttributes::Catch(CatchDifficultyAttributes {
            stars,
            ar: 9.0,
            n_fruits: if small { rng.below(6) as u32 } else { n(rng, 2000) },
            n_droplets: if small { rng.below(4) as u32 } else { n(rng, 600) },
            n_tiny_droplets: if small { rng.below(7) as u32 } else { n(rng, 1500) },
            is_convert: rng.chance(0.3),
        }),
        GameMode::Mania => {
            // the search in mania's generate_state is O(N^3) in the worst case: keep shapes tractable
            let n_objects = n(rng, 120).min(120);
            let n_hold_notes = if small {
                rng.below(4).min(u64::from(n_objects)) as u32
            } else {
                rng.below(u64::from(n_objects) + 1) as u32
            };
            DifficultyAttributes::Mania(ManiaDifficultyAttributes {
                stars,
                n_objects,
                n_hold_notes,
                max_combo: n_objects + n_hold_notes * 3,
                is_convert: rng.chance(0.3),
            })
        }
    }
}

pub fn budget(attrs: &DifficultyAttributes) -> u32 {
    match attrs {
        DifficultyAttributes::Osu(a) => a.n_objects(),
        DifficultyAttributes::Taiko(a) => a.max_combo,
        DifficultyAttributes::Catch(a) => a.n_fruits + a.n_droplets,
        DifficultyAttributes::Mania(a) => a.n_objects,
    }
}

pub fn gen_in(rng: &mut Rng, mode: GameMode, n: u32) -> In {
    let mut i = gen_in_raw(rng, mode, n);
    // a stable score (lazer = false) carrying a lazer Classic mod with an explicit setting is not a combination the game
    // produces: the explicit setting is only generated for lazer scores
    if i.lazer == Some(false) {
        i.cl_setting = None;
    }
    i
}

fn gen_in_raw(rng: &mut Rng, mode: GameMode, n: u32) -> In {
    let k = n_results(mode);
    let val = |rng: &mut Rng| -> u32 {
        match rng.below(6) {
            0 => 0,
            1 => n,
            2 => n + 1 + rng.below(2) as u32,
            3 => rng.below(u64::from(n) / 2 + 2) as u32,
            _ => rng.below(u64::from(n) + 3) as u32,
        }
    };
    let opt = |rng: &mut Rng, p: f64| -> Option<u32> { if rng.chance(p) { Some(val(rng)) } else { None } };
    let p_res = *rng.pick(&[0.0, 0.3, 0.5, 0.8, 1.0]);
    In {
        acc: if rng.chance(0.5) {
            Some(match rng.below(5) {
                0 => 100.0,
                1 => 0.0,
                2 => (rng.range(0, 400) as f64) * 0.25,
                _ => rng.frange(0.0, 100.0),
            })
        } else {
            None
        },
        combo: opt(rng, 0.4).map(|c| if rng.chance(0.2) { c * 7 + 3 } else { c }),
        misses: opt(rng, 0.5),
        r: (0..k).map(|_| opt(rng, p_res)).collect(),
        worst: rng.chance(0.4),
        lazer: *rng.pick(&[None, Some(true), Some(false)]),
        cl: rng.chance(0.3),
        cl_setting: if mode == GameMode::Osu { *rng.pick(&[None, None, Some(true), Some(false)]) } else { None },
        lazer_via_setter: rng.chance(0.5),
        cl_repr: rng.below(3) as u8,
        ticks: if mode == GameMode::Osu && rng.chance(0.4) {
            [opt(rng, 0.5), opt(rng, 0.5), opt(rng, 0.5)]
        } else {
            [None; 3]
        },
        passed: if rng.chance(0.4) {
            Some(match rng.below(4) {
                0 => 0,
                1 => n,
                2 => n + 1,
                _ => rng.below(u64::from(n) + 2) as u32,
            })
        } else {
            None
        },
    }
}

pub fn build<'a>(attrs: &DifficultyAttributes, mode: GameMode, i: &In) -> Performance<'a> {
    build_on(Performance::new(attrs.clone()), mode, i)
}

/// Apply the input `i` (interpreted for `mode`) to a performance builder that was created by the caller
/// (from attributes, from a map, from a map that is still to be converted ...).
pub fn build_on<'a>(start: Performance<'a>, mode: GameMode, i: &In) -> Performance<'a> {
    let mut d = Difficulty::new();
    if i.cl {
        d = d.mods(
            ModSpec {
                bits: 0,
                repr: match (i.cl_repr, mode == GameMode::Osu && i.cl_setting.is_some()) {
                    (1, false) => Repr::LazerAsIntermode,
                    (2, false) => Repr::LazerAsIntermodeRef,
                    _ => Repr::Lazer,
                },
                extra: LazerExtra {
                    cl: Some(if mode == GameMode::Osu { i.cl_setting } else { None }),
                    ..LazerExtra::default()
                },
            }
            .to_gamemods(mode),
        );
    }
    if let (Some(l), false) = (i.lazer, i.lazer_via_setter) {
        d = d.lazer(l);
    }
    if let Some(p) = i.passed {
        d = d.passed_objects(p);
    }
    let mut p = start.difficulty(d);
    if let (Some(l), true) = (i.lazer, i.lazer_via_setter) {
        p = p.lazer(l);
    }
    if let Some(a) = i.acc {
        p = p.accuracy(a);
    }
    if let Some(c) = i.combo {
        p = p.combo(c);
    }
    if let Some(m) = i.misses {
        p = p.misses(m);
    }
    p = p.hitresult_priority(if i.worst { HitResultPriority::WorstCase } else { HitResultPriority::BestCase });
    let set = |p: Performance<'a>, idx: usize, v: u32| -> Performance<'a> {
        match (mode, idx) {
            (GameMode::Osu | GameMode::Taiko, 0) => p.n300(v),
            (GameMode::Osu | GameMode::Taiko, 1) => p.n100(v),
            (GameMode::Osu, 2) => p.n50(v),
            (GameMode::Mania, 0) => p.n_geki(v),
            (GameMode::Mania, 1) => p.n300(v),
            (GameMode::Mania, 2) => p.n_katu(v),
            (GameMode::Mania, 3) => p.n100(v),
            (GameMode::Mania, 4) => p.n50(v),
            (GameMode::Catch, 0) => p.n300(v),
            (GameMode::Catch, 1) => p.n100(v),
            (GameMode::Catch, 2) => p.n50(v),
            (GameMode::Catch, 3) => p.n_katu(v),
            _ => p,
        }
    };
    for (idx, v) in i.r.iter().enumerate() {
        if let Some(v) = v {
            p = set(p, idx, *v);
        }
    }
    if let Some(v) = i.ticks[0] {
        p = p.large_tick_hits(v);
    }
    if let Some(v) = i.ticks[1] {
        p = p.small_tick_hits(v);
    }
    if let Some(v) = i.ticks[2] {
        p = p.slider_end_hits(v);
    }
    p
}

pub fn results_of(mode: GameMode, s: &ScoreState) -> Vec<u32> {
    match mode {
        GameMode::Osu => vec![s.n300, s.n100, s.n50],
        GameMode::Taiko => vec![s.n300, s.n100],
        GameMode::Mania => vec![s.n_geki, s.n300, s.n_katu, s.n100, s.n50],
        GameMode::Catch => vec![s.n300, s.n100, s.n50, s.n_katu],
    }
}

/// Is the classic (stable / CL) scoring in effect for this mode & input.
pub fn classic(mode: GameMode, i: &In) -> bool {
    let lazer = i.lazer.unwrap_or(true);
    match mode {
        GameMode::Mania | GameMode::Osu => !lazer || cl_effective(mode, i),
        _ => false,
    }
}

/// Does the Classic mod of this input switch slider-head accuracy off (osu!: only unless its setting says otherwise).
pub fn cl_effective(mode: GameMode, i: &In) -> bool {
    i.cl && (mode != GameMode::Osu || i.cl_setting.unwrap_or(true))
}

/// Evaluate clauses S2-S4 on a generated state. Returns (clause, message) of the first failure.
#[allow(clippy::too_many_lines)]
pub fn check_state(attrs: &DifficultyAttributes, mode: GameMode, i: &In, out: &ScoreState) -> Option<(String, String)> {
    let passed = i.passed.unwrap_or(u32::MAX);
    let res = results_of(mode, out);
    match attrs {
        DifficultyAttributes::Catch(a) => {
            let n_fd = a.n_fruits + a.n_droplets;
            let want_m = i.misses.unwrap_or(0).min(n_fd);
            if out.misses != want_m {
                return Some(("S2-misses".into(), format!("misses out={} expected min(provided, fruits+droplets)={want_m}", out.misses)));
            }
            // fruits / droplets: a completion exists iff provided values can be completed within [0,F]x[0,D]
            let (f_in, d_in) = (i.r[0], i.r[1]);
            let rest = n_fd - want_m;
            let completion: Option<(Option<u32>, Option<u32>)> = match (f_in, d_in) {
                (Some(f), Some(d)) => (f <= a.n_fruits && d <= a.n_droplets && f + d <= rest).then_some((None, None)),
                (Some(f), None) => (f <= a.n_fruits && f <= rest && rest - f <= a.n_droplets).then_some((Some(f), Some(rest - f))),
                (None, Some(d)) => (d <= a.n_droplets && d <= rest && rest - d <= a.n_fruits).then_some((Some(rest - d), Some(d))),
                (None, None) => Some((None, None)),
            };
            if let Some((wf, wd)) = completion {
                if res[0] + res[1] + out.misses != n_fd {
                    return Some((
                        "S3-sum".into(),
                        format!("fruits {} + droplets {} + misses {} != {n_fd}", res[0], res[1], out.misses),
                    ));
                }
                if let (Some(wf), Some(wd)) = (wf, wd) {
                    if res[0] != wf || res[1] != wd {
                        return Some(("S3-kept".into(), format!("fruits/droplets out=({}, {}) expected ({wf}, {wd})", res[0], res[1])));
                    }
                }
                if let (Some(f), Some(d)) = (f_in, d_in) {
                    if res[0] < f || res[1] < d {
                        return Some(("S3-kept".into(), format!("provided fruits/droplets ({f}, {d}) not kept: out=({}, {})", res[0], res[1])));
                    }
                }
            }
            // tiny droplets
            let (t_in, tm_in) = (i.r[2], i.r[3]);
            let t_fits = match (t_in, tm_in) {
                (Some(t), Some(tm)) => t + tm <= a.n_tiny_droplets,
                (Some(t), None) => t <= a.n_tiny_droplets,
                (None, Some(tm)) => tm <= a.n_tiny_droplets,
                (None, None) => true,
            };
            if t_fits {
                if res[2] + res[3] != a.n_tiny_droplets {
                    return Some((
                        "S3-tiny-sum".into(),
                        format!("tiny {} + tiny misses {} != {}", res[2], res[3], a.n_tiny_droplets),
                    ));
                }
                if let Some(t) = t_in {
                    if res[2] < t || (tm_in.is_none() && res[2] != t) {
                        return Some(("S3-tiny-kept".into(), format!("provided tiny droplets {t} not kept: out {}", res[2])));
                    }
                }
                if let Some(tm) = tm_in {
                    if res[3] < tm || (t_in.is_none() && res[3] != tm) {
                        return Some(("S3-tiny-kept".into(), format!("provided tiny droplet misses {tm} not kept: out {}", res[3])));
                    }
                }
            }
            let max_possible = a.max_combo().saturating_sub(out.misses);
            if out.max_combo > max_possible {
                return Some(("S4-combo".into(), format!("combo out={} above achievable {max_possible}", out.max_combo)));
            }
            if let Some(c) = i.combo {
                if c <= max_possible && out.max_combo != c {
                    return Some(("S4-combo-kept".into(), format!("provided combo {c} fits but out={}", out.max_combo)));
                }
            }
            None
        }
        _ => {
            let (cap, n_eff) = match attrs {
                DifficultyAttributes::Osu(a) => {
                    let n = passed.min(a.n_objects());
                    (n, n)
                }
                DifficultyAttributes::Taiko(a) => {
                    let n = passed.min(a.max_combo);
                    (n, n)
                }
                DifficultyAttributes::Mania(a) => {
                    let n = passed.min(a.n_objects);
                    (n, n + if classic(mode, i) { 0 } else { a.n_hold_notes })
                }
                DifficultyAttributes::Catch(_) => unreachable!(),
            };
            let want_m = i.misses.unwrap_or(0).min(cap);
            if out.misses != want_m {
                return Some(("S2-misses".into(), format!("misses out={} expected min(provided, objects)={want_m}", out.misses)));
            }
            let n_rem = n_eff - want_m;
            let clamped: Vec<Option<u32>> = i.r.iter().map(|v| v.map(|v| v.min(n_rem))).collect();
            let provided_sum: u64 = clamped.iter().flatten().map(|&v| u64::from(v)).sum::<u64>() + u64::from(want_m);
            if provided_sum <= u64::from(n_eff) {
                let total: u64 = res.iter().map(|&v| u64::from(v)).sum::<u64>() + u64::from(out.misses);
                if total != u64::from(n_eff) {
                    return Some(("S3-sum".into(), format!("hit results {res:?} + misses {} add up to {total}, expected {n_eff}", out.misses)));
                }
                let any_unprovided = clamped.iter().any(Option::is_none);
                for (k, c) in clamped.iter().enumerate() {
                    if let Some(c) = c {
                        if res[k] < *c || (any_unprovided && res[k] != *c) {
                            return Some((
                                "S3-kept".into(),
                                format!("provided result #{k} (clamped {c}) not kept: out {res:?} (unprovided exists: {any_unprovided})"),
                            ));
                        }
                    }
                }
            }
            // osu! slider results ("keeps every provided hit result that fits"): which of them exist depends on the origin
            if let DifficultyAttributes::Osu(a) = attrs {
                let lazer = i.lazer.unwrap_or(true);
                // (provided, maximum for this origin, value in the generated state, name); stable scores have none of them
                let rows: Vec<(Option<u32>, u32, u32, &str)> = match (lazer, cl_effective(mode, i)) {
                    (false, _) => vec![],
                    (true, false) => vec![
                        (i.ticks[0], a.n_large_ticks, out.osu_large_tick_hits, "large_tick_hits"),
                        (i.ticks[2], a.n_sliders, out.slider_end_hits, "slider_end_hits"),
                    ],
                    (true, true) => vec![
                        (i.ticks[0], a.n_sliders + a.n_large_ticks, out.osu_large_tick_hits, "large_tick_hits"),
                        (i.ticks[1], a.n_sliders, out.osu_small_tick_hits, "small_tick_hits"),
                    ],
                };
                for (provided, max, got, name) in rows {
                    if let Some(v) = provided {
                        if v <= max && got != v {
                            return Some(("S3-ticks-kept".into(), format!("provided {name} = {v} fits (maximum {max}) but the state has {got}")));
                        }
                    }
                }
            }
            if mode != GameMode::Mania {
                let mc = match attrs {
                    DifficultyAttributes::Osu(a) => a.max_combo,
                    DifficultyAttributes::Taiko(a) => a.max_combo,
                    _ => 0,
                };
                let max_possible = mc.saturating_sub(out.misses);
                if out.max_combo > max_possible {
                    return Some(("S4-combo".into(), format!("combo out={} above achievable {max_possible}", out.max_combo)));
                }
                if let Some(c) = i.combo {
                    if c <= max_possible && out.max_combo != c {
                        return Some(("S4-combo-kept".into(), format!("provided combo {c} fits but out={}", out.max_combo)));
                    }
                }
            }
            None
        }
    }
}

/// The part of the input pattern that is relevant for a clause (keeps signatures narrow but stable).
pub fn clause_pattern(mode: GameMode, clause: &str, i: &In, attrs: &DifficultyAttributes) -> String {
    let a = if i.acc.is_some() { "A" } else { "-" };
    let pat = |vals: &[Option<u32>]| vals.iter().map(|v| if v.is_some() { 'x' } else { '.' }).collect::<String>();
    if clause.starts_with("S2") {
        return if i.misses.is_some() { "M".into() } else { "-".into() };
    }
    if clause.starts_with("S4") {
        return if i.combo.is_some() { "C".into() } else { "-".into() };
    }
    if clause.starts_with("S3-tiny") {
        let t = match (attrs, i.r.get(2).copied().flatten(), i.r.get(3).copied().flatten()) {
            (DifficultyAttributes::Catch(c), Some(t), Some(tm)) => {
                if t + tm < c.n_tiny_droplets {
                    "/sum<total"
                } else if t + tm == c.n_tiny_droplets {
                    "/sum=total"
                } else {
                    "/sum>total"
                }
            }
            _ => "",
        };
        return format!("{a}:{}{t}", pat(&i.r[2..]));
    }
    if clause.starts_with("S3") {
        let r = if mode == GameMode::Catch { &i.r[..2] } else { &i.r[..] };
        return format!("{a}:{}", pat(r));
    }
    provided_pattern(i)
}

pub fn provided_pattern(i: &In) -> String {
    let mut s = String::new();
    s.push(if i.acc.is_some() { 'A' } else { '-' });
    s.push(if i.combo.is_some() { 'C' } else { '-' });
    s.push(if i.misses.is_some() { 'M' } else { '-' });
    s.push(':');
    for v in &i.r {
        s.push(if v.is_some() { 'x' } else { '.' });
    }
    s
}

/// Shapes whose whole input space (every subset of provided fields with every value 0..=N+2, accuracy
/// none/0/50/100, both priorities, all origins, every passed_objects 0..=N+1, combos around the maximum)
/// is enumerated completely.
pub fn small_shapes(tier: crate::runner::Tier) -> Vec<(GameMode, DifficultyAttributes)> {
    let max_n: u32 = if tier == crate::runner::Tier::Thorough { 3 } else { 2 };
    let mut v = Vec::new();
    let mk = |mode: GameMode, a: [u32; 4]| -> DifficultyAttributes {
        let mut r = Rng::new(7);
        let mut attrs = gen_shape(&mut r, mode, true);
        match &mut attrs {
            DifficultyAttributes::Osu(o) => {
                o.n_circles = a[0];
                o.n_sliders = a[1];
                o.n_spinners = a[2];
                o.n_large_ticks = a[3];
                o.max_combo = a[0] + a[2] + 2 * a[1] + a[3];
            }
            DifficultyAttributes::Taiko(t) => t.max_combo = a[0],
            DifficultyAttributes::Catch(c) => {
                c.n_fruits = a[0];
                c.n_droplets = a[1];
                c.n_tiny_droplets = a[2];
            }
            DifficultyAttributes::Mania(m) => {
                m.n_objects = a[0];
                m.n_hold_notes = a[1];
                m.max_combo = a[0] + 3 * a[1];
            }
        }
        attrs
    };
    for c in 0..=max_n {
        for s in 0..=(max_n - c).min(2) {
            for sp in 0..=(max_n - c - s).min(1) {
                for t in 0..=(if s > 0 { 1 } else { 0 }) {
                    v.push((GameMode::Osu, mk(GameMode::Osu, [c, s, sp, t])));
                }
            }
        }
    }
    for n in 0..=max_n + 1 {
        v.push((GameMode::Taiko, mk(GameMode::Taiko, [n, 0, 0, 0])));
    }
    for f in 0..=max_n.min(2) {
        for d in 0..=1 {
            for t in 0..=2 {
                v.push((GameMode::Catch, mk(GameMode::Catch, [f, d, t, 0])));
            }
        }
    }
    // mania has five result slots: its input space grows as (N+4)^6
    for n in 0..=(max_n - 1) {
        for h in 0..=n.min(1) {
            v.push((GameMode::Mania, mk(GameMode::Mania, [n, h, 0, 0])));
        }
    }
    v
}

pub fn case_count(tier: crate::runner::Tier) -> u64 {
    small_shapes(tier).len() as u64
}

/// The same attributes with one object count changed (`sel` picks which).
pub fn sibling(attrs: &DifficultyAttributes, sel: u64) -> DifficultyAttributes {
    let mut out = attrs.clone();
    match &mut out {
        DifficultyAttributes::Osu(a) => match sel % 4 {
            0 if a.n_sliders > 0 => {
                a.n_large_ticks += 1;
                a.max_combo += 1;
            }
            1 if a.n_sliders > 0 => {
                a.n_sliders -= 1;
                a.n_circles += 1;
                a.max_combo = a.max_combo.saturating_sub(1);
            }
            2 => {
                a.n_circles += 1;
                a.max_combo += 1;
            }
            _ => {
                a.n_sliders += 1;
                a.max_combo += 2;
            }
        },
        DifficultyAttributes::Taiko(a) => a.max_combo = if sel % 2 == 0 { a.max_combo + 1 } else { a.max_combo.saturating_sub(1) },
        DifficultyAttributes::Catch(a) => match sel % 3 {
            0 => a.n_tiny_droplets += 1,
            1 if a.n_fruits > 0 => {
                a.n_fruits -= 1;
                a.n_droplets += 1;
            }
            _ => a.n_fruits += 1,
        },
        DifficultyAttributes::Mania(a) => match sel % 3 {
            0 if a.n_hold_notes < a.n_objects => {
                a.n_hold_notes += 1;
                a.max_combo += 3;
            }
            1 if a.n_hold_notes > 0 => {
                a.n_hold_notes -= 1;
                a.max_combo = a.max_combo.saturating_sub(3);
            }
            _ => {
                a.n_objects += 1;
                a.max_combo += 1;
            }
        },
    }
    out
}

fn evaluate(ctx: &mut Ctx, mode: GameMode, attrs: &DifficultyAttributes, i: &In) {
    // One request in four is directly preceded (same thread) by the same request for attributes that differ in a single
    // object count: anything remembered between calls under too coarse a key is handed to the judged call.
    let sel = crate::rng::hash_str(&format!("{i:?}"));
    if sel % 4 == 0 {
        let sib = sibling(attrs, sel / 4);
        let _ = guard(|| {
            let mut b = build(&sib, mode, i);
            b.generate_state()
        });
        ctx.count("neighbour_calls_before_judged_call");
    }
    evaluate_with(ctx, mode, attrs, i, "", &|i| Some(build(attrs, mode, i)));
}

/// `mk` creates the configured builder (None: this entry path is not available, e.g. a conversion error); `entry` names
/// the entry path in signatures ("" = builder from attributes).
fn evaluate_with<'m>(ctx: &mut Ctx, mode: GameMode, attrs: &DifficultyAttributes, i: &In, entry: &str, mk: &dyn Fn(&In) -> Option<Performance<'m>>) {
    let mname = mode_name(mode);
    let r = guard(|| {
        let mut b = mk(i)?;
        let s1 = bracket("generate_state", || b.generate_state());
        let s2 = bracket("generate_state", || b.generate_state());
        let calc = bracket("performance::calculate", || b.calculate());
        let mut fresh_in = i.clone();
        fresh_in.acc = None;
        fresh_in.combo = None;
        fresh_in.misses = None;
        fresh_in.r = vec![None; n_results(mode)];
        fresh_in.ticks = [None; 3];
        let fresh = mk(&fresh_in)?.state(s1.clone());
        let calc2 = bracket("performance::calculate", || fresh.calculate());
        Some((s1, s2, calc, calc2))
    });
    ctx.eval();
    let pat = format!("{}{entry}", provided_pattern(i));
    let witness = |what: &str| format!("{what}\n mode={mname} entry={entry} attrs={}\n input={i:?}", dump(attrs));
    match r {
        Err(p) => {
            ctx.violation(&format!("C12/{mname}/S1-panic/{}/{pat}", p.sig()), &witness(&format!("panic {} at {}", p.msg, p.loc)), None);
        }
        Ok(None) => {}
        Ok(Some((s1, s2, calc, calc2))) => {
            if let Some((clause, msg)) = check_state(attrs, mode, i, &s1) {
                let cp = clause_pattern(mode, &clause, i, attrs);
                ctx.violation(&format!("C12/{mname}/{clause}/{cp}{entry}"), &witness(&format!("{msg}\n generated={s1:?}")), None);
            }
            if s1 != s2 {
                ctx.violation(&format!("C12/{mname}/S5-stable/{pat}"), &witness(&format!("first={s1:?}\n second={s2:?}")), None);
            }
            if dump(&calc) != dump(&calc2) {
                ctx.violation(
                    &format!("C12/{mname}/S6-calculate/{pat}"),
                    &witness(&format!("calculate()={}\n with explicit generated state={}", dump(&calc), dump(&calc2))),
                    None,
                );
            }
        }
    }
}

/// The same clauses for a builder created from an osu!standard *map*, configured while it still is the osu! builder and only
/// then switched to the target mode (`try_mode` / `mode_or_ignore`): provided values must survive the switch.
fn via_map(ctx: &mut Ctx, rng: &mut Rng) {
    use crate::gen::{self, Mix};
    let mx = Mix {
        realistic: true,
        max_objects: 40,
        fixtures: true,
        mode: Some(0),
        ..Mix::default()
    };
    let Some((_mc, map)) = gen::gen_domain_map(rng, &mx, crate::maps::Domain::Realistic) else { return };
    if map.mode != GameMode::Osu || map.hit_objects.is_empty() {
        return;
    }
    let mode = *rng.pick(&[GameMode::Osu, GameMode::Taiko, GameMode::Catch, GameMode::Mania]);
    let Ok(Ok(conv)) = guard(|| map.convert_ref(mode, &0u32.into()).map(std::borrow::Cow::into_owned)) else { return };
    let Ok(attrs) = guard(|| Difficulty::new().calculate(&conv)) else { return };
    let n = budget(&attrs);
    let use_ignore = rng.chance(0.5);
    let entry = if use_ignore { "/via-mode_or_ignore" } else { "/via-try_mode" };
    ctx.count(&format!("entry:{}:{}", &entry[1..], mode_name(mode)));
    let map_ref: &rosu_pp::Beatmap = &map;
    let mk = move |i: &In| -> Option<Performance<'_>> {
        let p = build_on(Performance::new(map_ref), mode, i);
        if use_ignore {
            Some(p.mode_or_ignore(mode))
        } else {
            p.try_mode(mode).ok()
        }
    };
    for _ in 0..12 {
        let mut i = gen_in(rng, mode, n);
        // passed_objects would change the attributes the oracle has to use; the full map is enough for this entry path
        i.passed = None;
        // only values the osu! builder can hold are given before the switch (it has no katu / geki counters)
        match mode {
            GameMode::Catch => i.r[3] = None,
            GameMode::Mania => {
                i.r[0] = None;
                i.r[2] = None;
            }
            _ => {}
        }
        ctx.count("configurations_via_map");
        evaluate_with(ctx, mode, &attrs, &i, entry, &mk);
    }
}

/// Enumerate the complete input space of one small shape.
fn exhaustive_case(ctx: &mut Ctx, mode: GameMode, attrs: &DifficultyAttributes) {
    let n = budget(attrs);
    let k = n_results(mode);
    let vals: Vec<Option<u32>> = std::iter::once(None).chain((0..=n + 2).map(Some)).collect();
    let mc = match attrs {
        DifficultyAttributes::Osu(a) => a.max_combo,
        DifficultyAttributes::Taiko(a) => a.max_combo,
        DifficultyAttributes::Catch(a) => a.max_combo(),
        DifficultyAttributes::Mania(_) => 0,
    };
    let combos: Vec<Option<u32>> = if mode == GameMode::Mania {
        vec![None]
    } else {
        let mut c = vec![None, Some(0), Some(mc), Some(mc + 1)];
        if mc > 0 {
            c.push(Some(mc - 1));
        }
        c
    };
    let origins: &[(Option<bool>, bool)] = match mode {
        GameMode::Osu | GameMode::Mania => &[(None, false), (Some(false), false), (Some(true), true)],
        _ => &[(None, false)],
    };
    let accs: [Option<f64>; 4] = [None, Some(0.0), Some(50.0), Some(100.0)];
    let passed: Vec<Option<u32>> = std::iter::once(None).chain((0..=n + 1).map(Some)).collect();
    // mixed-radix counter over the k result slots
    let mut idxs = vec![0usize; k];
    let mut count = 0u64;
    loop {
        let r: Vec<Option<u32>> = idxs.iter().map(|&j| vals[j]).collect();
        for &misses in &vals {
            for &combo in &combos {
                for &(lazer, cl) in origins {
                    for &acc in &accs {
                        for &p in &passed {
                            for worst in [false, true] {
                                if mode == GameMode::Catch && worst {
                                    continue;
                                }
                                let i = In {
                                    acc,
                                    combo,
                                    misses,
                                    r: r.clone(),
                                    worst,
                                    lazer,
                                    cl,
                                    cl_setting: None,
                                    lazer_via_setter: count % 2 == 1,
                                    cl_repr: (count % 3) as u8,
                                    ticks: [None; 3],
                                    passed: p,
                                };
                                evaluate(ctx, mode, attrs, &i);
                                count += 1;
                            }
                        }
                    }
                }
            }
        }
        // increment
        let mut pos = 0;
        loop {
            if pos == k {
                ctx.count_n("exhaustive_inputs", count);
                return;
            }
            idxs[pos] += 1;
            if idxs[pos] < vals.len() {
                break;
            }
            idxs[pos] = 0;
            pos += 1;
        }
    }
}

pub fn case(ctx: &mut Ctx, idx: u64) {
    let shapes = small_shapes(ctx.tier);
    if (idx as usize) < shapes.len() {
        let (mode, attrs) = shapes[idx as usize].clone();
        ctx.count("class:exhaustive-shape");
        ctx.count(&format!("mode:{}", mode_name(mode)));
        ctx.nontrivial(hash_str(&dump(&attrs)));
        exhaustive_case(ctx, mode, &attrs);
        ctx.sample(|| format!("exhaustive mode={} attrs={}", mode_name(mode), dump(&attrs)));
        return;
    }
    let mut rng = Rng::for_case(ctx.seed, "C12", idx);
    let mode = [GameMode::Osu, GameMode::Taiko, GameMode::Catch, GameMode::Mania][(idx % 4) as usize];
    let mname = mode_name(mode);
    let small = rng.chance(0.6);
    let attrs = gen_shape(&mut rng, mode, small);
    let n = budget(&attrs);
    ctx.count(&format!("mode:{mname}"));
    ctx.count(if small { "class:small-shape" } else { "class:large-shape" });
    let trials = if ctx.thorough() { 400 } else { 200 };
    for _ in 0..trials {
        let i = gen_in(&mut rng, mode, n);
        ctx.nontrivial(hash_str(&dump(&attrs)) ^ hash_str(&format!("{i:?}")));
        evaluate(ctx, mode, &attrs, &i);
    }
    via_map(ctx, &mut rng);
    ctx.sample(|| format!("mode={mname} attrs={}", dump(&attrs)));
}
