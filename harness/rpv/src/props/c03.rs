//! C03 — gradual performance equals performance of the partial play.

use rosu_pp::{
    any::{PerformanceAttributes, ScoreState},
    catch::CatchPerformance,
    mania::ManiaPerformance,
    model::mode::GameMode,
    osu::OsuPerformance,
    taiko::TaikoPerformance,
    Beatmap, Performance,
};

use crate::{
    api,
    gen::{self, Mix},
    maps::{dump, mode_name, Domain},
    osu::Profile,
    props::{c02, perf_diff_fields, sig_fields},
    rng::{hash_str, Rng},
    runner::{guard, Ctx},
    sets::{self, SetSpec},
};

/// Mode-specific performance builder on a (possibly unconverted) map, wrapped in `Performance`.
pub fn mode_perf(map: &Beatmap, mode: GameMode) -> Performance<'_> {
    match mode {
        GameMode::Osu => Performance::Osu(OsuPerformance::new(map)),
        GameMode::Taiko => Performance::Taiko(TaikoPerformance::new(map)),
        GameMode::Catch => Performance::Catch(CatchPerformance::new(map)),
        GameMode::Mania => Performance::Mania(ManiaPerformance::new(map)),
    }
}

pub fn one_shot(map: &Beatmap, mode: GameMode, spec: &SetSpec, passed: u32, state: &ScoreState) -> PerformanceAttributes {
    let d = spec.with_passed(passed).to_difficulty(mode);
    // order as in the property: difficulty, passed_objects, state
    let p = mode_perf(map, mode).difficulty(d).passed_objects(passed).state(state.clone());
    api::perf_calc(p)
}

#[derive(Clone, Debug)]
pub enum Op {
    Next,
    Nth(usize),
    Last,
}

pub fn gen_k(rng: &mut Rng, rem: usize) -> usize {
    match rng.below(10) {
        // integer-width boundaries: an index that is narrowed (u32, i32, u16 ...) somewhere on the way wraps to a small value
        9 => {
            let base = *rng.pick(&[1usize << 32, 1 << 31, (1 << 32) - 1, 1 << 16, 1 << 63, usize::MAX - 1, 1 << 33, 1 << 48]);
            base.wrapping_add(rng.usize_below(4)).wrapping_sub(rng.usize_below(2))
        }
        0 => 0,
        1 => 1,
        2 => 2,
        3 => rng.usize_below(6),
        4 => rem.saturating_sub(1),
        5 => rem,
        6 => rem + 1,
        7 => usize::MAX,
        _ => rng.usize_below(rem.max(1)),
    }
}

pub fn case(ctx: &mut Ctx, idx: u64) {
    let mut rng = Rng::for_case(ctx.seed, "C03", idx);
    let max_objects = if ctx.thorough() { 120 } else { 50 };
    let mx = if rng.chance(0.4) {
        Mix {
            realistic: true,
            max_objects,
            profiles: Some(vec![Profile::Tiny, Profile::NonHitFirst, Profile::Holds, Profile::Spinners, Profile::Editor]),
            fixtures: false,
            mode: None,
        }
    } else {
        Mix {
            realistic: true,
            max_objects,
            ..Mix::default()
        }
    };
    let Some((mc, map)) = gen::gen_domain_map_ext(&mut rng, &mx, Domain::Realistic, 3, 15) else {
        ctx.count("skipped_no_domain_map");
        return;
    };
    let mode = gen::pick_mode(&mut rng, &map);
    let mut spec = c02::settings(&mut rng, mode, &map);
    let mname = mode_name(mode);
    ctx.count(&format!("mode:{mname}"));
    // a Difficulty that still carries a passed_objects value (e.g. settings reused from a failed play): the gradual
    // calculator replaces it by its own cursor, exactly like the one-shot call with passed_objects(i) does
    if rng.chance(0.2) {
        spec.passed = Some(rng.below(map.hit_objects.len() as u64 + 3) as u32);
        ctx.count("class:difficulty-carries-passed_objects");
    }
    let d = spec.to_difficulty(mode);

    let mut g = match guard(|| api::gradual_perf(d.clone(), &map, mode)) {
        Ok(Ok(g)) => g,
        Ok(Err(_)) => {
            ctx.count("skipped_convert_error");
            return;
        }
        Err(p) => {
            ctx.violation(
                &format!("C03/{mname}/new/{}", p.sig()),
                &format!("GradualPerformance::new panicked: {} at {} | {}", p.msg, p.loc, spec.describe()),
                Some(&mc.text),
            );
            return;
        }
    };
    let total = g.len();
    let pred = c02::predicate(&map, mode, &spec);
    let mut q = 0usize; // model cursor
    let mut steps = 0;
    let mut ops_desc = Vec::new();
    let max_steps = 14;
    while steps < max_steps {
        steps += 1;
        let rem = total - q;
        let op = match rng.below(10) {
            0..=3 => Op::Next,
            4..=8 => Op::Nth(gen_k(&mut rng, rem)),
            _ => Op::Last,
        };
        let consumed = match op {
            Op::Next => 1.min(rem),
            Op::Nth(k) => k.saturating_add(1).min(rem),
            Op::Last => rem,
        };
        let q2 = q + consumed;
        // state: consistent with the prefix half of the time
        let state = if rng.chance(0.6) {
            sets::gen_state(&mut rng, q2 as u32)
        } else {
            let nn = rng.below(2 * total as u64 + 3) as u32;
            sets::gen_state(&mut rng, nn)
        };
        ops_desc.push(format!("{op:?}"));
        let st = state.clone();
        let r = guard(|| match op {
            Op::Next => api::gp_next(&mut g, st),
            Op::Nth(k) => api::gp_nth(&mut g, st, k),
            Op::Last => api::gp_last(&mut g, st),
        });
        let got = match r {
            Ok(v) => v,
            Err(p) => {
                ctx.violation(
                    &format!("C03/{mname}/op-panic/{}/{pred}", p.sig()),
                    &format!(
                        "gradual performance op {op:?} at cursor {q}/{total} panicked: {} at {} | ops={ops_desc:?} state={state:?} settings=[{}]",
                        p.msg,
                        p.loc,
                        spec.describe()
                    ),
                    Some(&mc.text),
                );
                return;
            }
        };
        ctx.eval();
        if rem == 0 {
            if got.is_some() {
                ctx.violation(
                    &format!("C03/{mname}/some-after-end/{pred}"),
                    &format!("op {op:?} returned a value although nothing remained (total {total}) ops={ops_desc:?}"),
                    Some(&mc.text),
                );
            }
            if steps >= 3 && rng.chance(0.5) {
                break;
            }
            continue;
        }
        let Some(got) = got else {
            ctx.violation(
                &format!("C03/{mname}/none-before-end/{pred}"),
                &format!(
                    "op {op:?} at cursor {q}/{total} returned None although {rem} remained | ops={ops_desc:?} settings=[{}]",
                    spec.describe()
                ),
                Some(&mc.text),
            );
            return;
        };
        q = q2;
        // reference: one-shot on the map
        let want = match guard(|| one_shot(&map, mode, &spec, q as u32, &state)) {
            Ok(w) => w,
            Err(p) => {
                ctx.count("skipped_reference_panic");
                ctx.violation(
                    &format!("C03/{mname}/reference-panic/{}", p.sig()),
                    &format!("one-shot performance panicked: {} at {} state={state:?} passed={q}", p.msg, p.loc),
                    Some(&mc.text),
                );
                return;
            }
        };
        if q >= 2 {
            ctx.nontrivial(hash_str(&mc.text) ^ hash_str(&spec.describe()) ^ (q as u64).wrapping_mul(0x9E37) ^ hash_str(&dump(&state)));
        }
        if dump(&got) != dump(&want) {
            let f = perf_diff_fields(&got, &want);
            ctx.violation(
                &format!("C03/{mname}/value/{}/{pred}", sig_fields(&f)),
                &format!(
                    "after ops {ops_desc:?} cursor={q}/{total} state={state:?} settings=[{}] src={} fields={f:?}\n gradual : {}\n one-shot: {}",
                    spec.describe(),
                    mc.tag,
                    dump(&got),
                    dump(&want)
                ),
                Some(&mc.text),
            );
            return;
        }
        let l = g.len();
        if l != total - q {
            ctx.violation(
                &format!("C03/{mname}/len/{pred}"),
                &format!("len() = {l} but {} remain after ops {ops_desc:?}", total - q),
                Some(&mc.text),
            );
            return;
        }
    }
    ctx.sample(|| {
        format!(
            "mode={mname} src={} total={total} ops={ops_desc:?} settings=[{}]",
            mc.tag,
            spec.describe()
        )
    });
}
