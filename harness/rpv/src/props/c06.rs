//! C06 — decoding is total and always yields a well-formed beatmap.

use std::{collections::HashMap, str::FromStr};

use rosu_pp::{
    model::{
        hit_object::{HitObject, HitObjectKind, Pos},
        mode::GameMode,
    },
    verif_hooks::{sort_osu_legacy, TandemSorter},
    Beatmap,
};

use crate::{
    gen::{self, Mix},
    maps::dump,
    osu::{self, ObjKind, ObjLine, OsuFile, Profile, TimingLine},
    props::c19::{control_points_strict, objects_sorted},
    rng::{hash_bytes, Rng},
    runner::{api as bracket, guard, hex, truncate, Ctx},
};

/// Invariants of a decoded map. Returns (clause, message) for the first violation.
#[allow(clippy::too_many_lines)]
pub fn well_formed(map: &Beatmap) -> Option<(String, String)> {
    if let Some(w) = objects_sorted(map) {
        return Some(("objects-unsorted".into(), w));
    }
    if map.hit_sounds.len() != map.hit_objects.len() {
        return Some((
            "sounds-vs-objects".into(),
            format!("{} hit sounds for {} objects", map.hit_sounds.len(), map.hit_objects.len()),
        ));
    }
    if let Some(w) = control_points_strict(map) {
        return Some(("control-points-not-strict".into(), w));
    }
    let fin = |name: &str, v: f64| -> Option<(String, String)> {
        if v.is_finite() {
            None
        } else {
            Some((format!("non-finite/{name}"), format!("{name} = {v:?}")))
        }
    };
    let range = |name: &str, v: f64, lo: f64, hi: f64| -> Option<(String, String)> {
        if v >= lo && v <= hi {
            None
        } else {
            Some((format!("clamp/{name}"), format!("{name} = {v:?} outside [{lo}, {hi}]")))
        }
    };
    let checks = [
        range("hp", f64::from(map.hp), 0.0, 10.0),
        range("od", f64::from(map.od), 0.0, 10.0),
        range("ar", f64::from(map.ar), 0.0, 10.0),
        if map.mode == GameMode::Mania {
            range("cs(mania)", f64::from(map.cs), 1.0, 18.0)
        } else {
            range("cs", f64::from(map.cs), 0.0, 10.0)
        },
        range("slider_multiplier", map.slider_multiplier, 0.4, 3.6),
        range("slider_tick_rate", map.slider_tick_rate, 0.5, 8.0),
        fin("stack_leniency", f64::from(map.stack_leniency)),
    ];
    for c in checks.into_iter().flatten() {
        return Some(c);
    }
    const T: f64 = 2_147_483_647.0;
    for (i, p) in map.timing_points.iter().enumerate() {
        if let Some(c) = range(&format!("timing_points.beat_len"), p.beat_len, 6.0, 60_000.0).or_else(|| range("timing_points.time", p.time, -T, T)) {
            return Some((c.0, format!("[{i}] {}", c.1)));
        }
    }
    for (i, p) in map.difficulty_points.iter().enumerate() {
        if let Some(c) = range("difficulty_points.slider_velocity", p.slider_velocity, 0.1, 10.0)
            .or_else(|| range("difficulty_points.bpm_multiplier", p.bpm_multiplier, 0.1, 100.0))
            .or_else(|| range("difficulty_points.time", p.time, -T, T))
        {
            return Some((c.0, format!("[{i}] {}", c.1)));
        }
    }
    for (i, p) in map.effect_points.iter().enumerate() {
        if let Some(c) = range("effect_points.scroll_speed", p.scroll_speed, 0.01, 10.0).or_else(|| range("effect_points.time", p.time, -T, T)) {
            return Some((c.0, format!("[{i}] {}", c.1)));
        }
    }
    for (i, b) in map.breaks.iter().enumerate() {
        if !(b.start_time.is_finite() && b.end_time.is_finite()) || b.end_time < b.start_time {
            return Some(("break".into(), format!("breaks[{i}] = {:?}..{:?}", b.start_time, b.end_time)));
        }
    }
    for (i, h) in map.hit_objects.iter().enumerate() {
        if let Some(c) = range("hit_object.x", f64::from(h.pos.x), -131_072.0, 131_072.0)
            .or_else(|| range("hit_object.y", f64::from(h.pos.y), -131_072.0, 131_072.0))
            .or_else(|| range("hit_object.start_time", h.start_time, -T, T))
        {
            return Some((c.0, format!("[{i}] {}", c.1)));
        }
        match &h.kind {
            HitObjectKind::Circle => {}
            HitObjectKind::Slider(s) => {
                if s.repeats > 8999 {
                    return Some(("clamp/slider.repeats".into(), format!("[{i}] repeats = {}", s.repeats)));
                }
                if let Some(d) = s.expected_dist {
                    if !(d > 0.0 && d <= 131_072.0) {
                        return Some(("clamp/slider.expected_dist".into(), format!("[{i}] expected_dist = {d:?}")));
                    }
                }
                if s.node_sounds.len() != s.repeats + 2 {
                    return Some((
                        "slider.node_sounds".into(),
                        format!("[{i}] {} node sounds for {} repeats", s.node_sounds.len(), s.repeats),
                    ));
                }
                for cp in s.control_points.iter() {
                    if !(cp.pos.x.is_finite() && cp.pos.y.is_finite()) {
                        return Some(("non-finite/slider.control_point".into(), format!("[{i}] {:?}", cp.pos)));
                    }
                }
            }
            HitObjectKind::Spinner(s) => {
                if !(s.duration.is_finite() && s.duration >= 0.0) {
                    return Some(("duration/spinner".into(), format!("[{i}] duration = {:?}", s.duration)));
                }
            }
            HitObjectKind::Hold(s) => {
                if !(s.duration.is_finite() && s.duration >= 0.0) {
                    return Some(("duration/hold".into(), format!("[{i}] duration = {:?}", s.duration)));
                }
            }
        }
    }
    None
}

/// The `pairing` sub-profile: unique (x, y) per line and a known sound.
fn pairing_file(rng: &mut Rng) -> (OsuFile, HashMap<(i64, i64), u8>) {
    let mode = *rng.pick(&[0u8, 0, 1, 2]);
    let mut f = OsuFile {
        version: Some(*rng.pick(&[14, 10, 7, 5])),
        mode,
        hp: Some("5".into()),
        cs: Some("4".into()),
        od: Some("6".into()),
        ar: Some("8".into()),
        sm: Some("1.4".into()),
        tr: Some("1".into()),
        ..OsuFile::default()
    };
    f.timing.push(TimingLine {
        time: "0".into(),
        beat_len: "400".into(),
        meter: "4".into(),
        uninherited: Some(true),
        effects: Some(0),
    });
    let big = rng.chance(0.2);
    let n = 2 + rng.usize_below(if big { 600 } else { 60 });
    let few = rng.chance(0.5);
    let n_times = 1 + rng.usize_below(if few { 3 } else { n });
    let mut expected = HashMap::new();
    for i in 0..n {
        let x = i as i64;
        let y = 7 + rng.range(0, 300) * 1000 / 1000;
        // massive start-time ties
        let t = (rng.usize_below(n_times) as f64) * 100.0;
        let snd = rng.below(16) as u32;
        let with_file = rng.chance(0.25);
        let sample = match (with_file, rng.below(3)) {
            (true, _) => Some("0:0:0:0:custom.wav".to_string()),
            (false, 0) => None,
            (false, 1) => Some("0:0:0:0:".to_string()),
            (false, _) => Some("1:2:3:40:".to_string()),
        };
        let kind = match rng.below(4) {
            0 => ObjKind::Slider {
                curve: format!("B|{}:{}|{}:{}", x + 30, y + 10, x + 60, y),
                slides: rng.range(1, 3).to_string(),
                length: Some("100".into()),
                edge_sounds: Some("0|2".into()),
                edge_sets: Some("0:0|0:0".into()),
            },
            1 => ObjKind::Spinner { end: osu::fnum(t + 500.0) },
            _ => ObjKind::Circle,
        };
        let want = if with_file { (snd & !1) as u8 } else { snd as u8 };
        expected.insert((x, y), want);
        f.objects.push(ObjLine {
            x: x.to_string(),
            y: y.to_string(),
            time: osu::fnum(t),
            extra_type: 0,
            sound: snd,
            kind,
            sample,
        });
    }
    if rng.chance(0.7) {
        rng.shuffle(&mut f.objects);
    }
    (f, expected)
}

fn drive_sorters(ctx: &mut Ctx, rng: &mut Rng) {
    // TandemSorter vs slice::sort_by (stable) as reference model
    let big = rng.chance(0.1);
    let n = if big { rng.usize_below(10_000) } else { rng.usize_below(200) };
    let few = rng.chance(0.5);
    let k = 1 + rng.usize_below(if few { 4 } else { n.max(1) });
    let keys: Vec<(f64, usize)> = (0..n)
        .map(|i| {
            let t = match rng.below(12) {
                0 => -0.0,
                1 => 0.0,
                _ => (rng.usize_below(k) as f64) * 10.0 - 30.0,
            };
            (t, i)
        })
        .collect();
    let r = guard(|| {
        let mut a = keys.clone();
        let mut payload: Vec<usize> = (0..n).collect();
        let mut sorter = TandemSorter::new_stable(&a, |x, y| x.0.total_cmp(&y.0));
        sorter.sort(&mut a);
        sorter.sort(&mut payload);
        (a, payload)
    });
    ctx.eval();
    ctx.count("sorter:tandem");
    match r {
        Err(p) => ctx.violation(&format!("C06/sort/tandem/{}", p.sig()), &format!("{} at {} n={n}", p.msg, p.loc), None),
        Ok((a, payload)) => {
            let mut want = keys.clone();
            want.sort_by(|x, y| x.0.total_cmp(&y.0));
            let same = a.len() == want.len() && a.iter().zip(want.iter()).all(|(x, y)| x.0.to_bits() == y.0.to_bits() && x.1 == y.1);
            let paired = payload.iter().zip(a.iter()).all(|(p, x)| *p == x.1);
            if !same || !paired {
                ctx.violation(
                    "C06/sort/tandem/model-mismatch",
                    &format!("TandemSorter differs from the stable reference sort (same order: {same}, second slice permuted identically: {paired}) n={n} distinct keys={k}"),
                    None,
                );
            }
        }
    }
    // osu_legacy sort: the library only ever applies it to slices that were stably sorted by start time
    // before (decoder, mania conversion), where it may only reorder ties. Oracle: output still sorted
    // and a permutation of the input. (On unsorted input the port does not sort - that is not a use the
    // crate makes of it, see DESIGN.md section 7.)
    let mut presorted = keys.clone();
    presorted.sort_by(|x, y| x.0.total_cmp(&y.0));
    let objs: Vec<HitObject> = presorted
        .iter()
        .map(|(t, i)| HitObject {
            pos: Pos::new(*i as f32, 0.0),
            start_time: *t,
            kind: HitObjectKind::Circle,
        })
        .collect();
    let r = guard(|| {
        let mut o = objs.clone();
        sort_osu_legacy(&mut o);
        o
    });
    ctx.eval();
    ctx.count("sorter:osu_legacy");
    match r {
        Err(p) => ctx.violation(&format!("C06/sort/osu_legacy/{}", p.sig()), &format!("{} at {} n={n}", p.msg, p.loc), None),
        Ok(o) => {
            let sorted = o.windows(2).all(|w| w[0].start_time <= w[1].start_time);
            let mut ids: Vec<u32> = o.iter().map(|h| h.pos.x as u32).collect();
            ids.sort_unstable();
            let perm = ids.len() == n && ids.iter().enumerate().all(|(i, v)| *v as usize == i);
            if !sorted || !perm {
                ctx.violation(
                    "C06/sort/osu_legacy/model-mismatch",
                    &format!("legacy sort output sorted={sorted} permutation={perm} n={n} distinct keys={k}"),
                    None,
                );
            }
        }
    }
}

#[allow(clippy::too_many_lines)]
pub fn case(ctx: &mut Ctx, idx: u64) {
    let mut rng = Rng::for_case(ctx.seed, "C06", idx);
    let small = ctx.param_u64("small", 0) == 1; // Miri-sized inputs
    let kind = if small { *rng.pick(&[2u64, 6, 8, 2]) } else { rng.below(10) };
    let mut expected_sounds: Option<HashMap<(i64, i64), u8>> = None;
    let (bytes, tag): (Vec<u8>, String) = match kind {
        0 | 1 => {
            // arbitrary noise / encodings on top of some text
            let seed_text = gen::gen_map(
                &mut rng,
                &Mix {
                    realistic: false,
                    max_objects: 30,
                    ..Mix::default()
                },
            )
            .text;
            (osu::noise_bytes(&mut rng, &seed_text), "bytes".into())
        }
        2 | 3 => {
            let p = *rng.pick(&[Profile::Limits, Profile::Ties, Profile::Limits, Profile::SliderZoo]);
            let f = osu::generate(
                &mut rng,
                &osu::GenOpts {
                    profile: p,
                    mode: None,
                    max_objects: if small { 6 } else { 60 },
                },
            );
            (f.render().into_bytes(), format!("gram:{}", p.name()))
        }
        4 | 5 => {
            let fi = rng.usize_below(4);
            let base = osu::fixture_window(&mut rng, &osu::load_fixture(fi), 80);
            let n_mut = 1 + rng.usize_below(6);
            (osu::mutate_text(&mut rng, &base, n_mut, false).into_bytes(), "mut".into())
        }
        6 | 7 => {
            let (mut f, exp) = pairing_file(&mut rng);
            if small {
                f.objects.truncate(6);
            }
            expected_sounds = Some(exp);
            (f.render().into_bytes(), "pairing".into())
        }
        8 => {
            // timing-point torture: duplicated times, 0 / -0, NaN beat lengths, redundant points
            let mut f = osu::generate(
                &mut rng,
                &osu::GenOpts {
                    profile: Profile::Ties,
                    mode: None,
                    max_objects: 10,
                },
            );
            let times = ["0", "-0", "0.0", "-0.0", "100", "100.0", "1e2", "-100", "99.99999999999999", "NaN"];
            for _ in 0..rng.range(2, if small { 8 } else { 40 }) {
                f.timing.push(TimingLine {
                    time: (*rng.pick(&times)).to_string(),
                    beat_len: (*rng.pick(&["300", "-100", "-50", "NaN", "500", "-0", "0", "1e-320", "-200"])).to_string(),
                    meter: "4".into(),
                    uninherited: Some(rng.chance(0.5)),
                    effects: Some(*rng.pick(&[0, 1])),
                });
            }
            (f.render().into_bytes(), "timing-torture".into())
        }
        _ => {
            let mc = gen::gen_map(
                &mut rng,
                &Mix {
                    realistic: false,
                    max_objects: 60,
                    ..Mix::default()
                },
            );
            (mc.text.into_bytes(), mc.tag)
        }
    };
    // ---- slider-curve separator damage (round 10): one text case in eight gets a lost point / doubled or dangling `|`
    // in one slider's curve field.  Own random stream, so every other case keeps the bytes it had before.
    let mut bytes = bytes;
    if !small && kind >= 2 && kind != 6 && kind != 7 {
        let mut r2 = Rng::for_case(ctx.seed, "C06-curve", idx);
        if r2.chance(0.125) {
            if let Some(t) = std::str::from_utf8(&bytes).ok().and_then(|s| damage_curve(&mut r2, s)) {
                bytes = t.into_bytes();
                ctx.count("class:slider-curve-separator-damage");
            }
        }
    }
    ctx.count(&format!("src:{}", tag.split(':').next().unwrap_or("x")));
    let input_repr = match std::str::from_utf8(&bytes) {
        Ok(s) => truncate(s, 60_000),
        Err(_) => format!("hex:{}", hex(&bytes[..bytes.len().min(30_000)])),
    };

    // ---- decode never panics and fails only with an io::Error
    let r = guard(|| bracket("decode", || Beatmap::from_bytes(&bytes)));
    ctx.eval();
    let res = match r {
        Ok(r) => r,
        Err(p) => {
            ctx.violation(&format!("C06/decode-panic/{}", p.sig()), &format!("from_bytes panicked: {} at {} src={tag}", p.msg, p.loc), Some(&input_repr));
            return;
        }
    };
    let main_dump = dump(&res.as_ref().map_err(std::io::Error::kind));
    let map = match res {
        Ok(m) => m,
        Err(_) => {
            ctx.count("decode:io-error");
            // an io::Error is an allowed outcome; still compare the other entry points below
            compare_paths(ctx, &bytes, &input_repr, &tag, idx, &main_dump);
            return;
        }
    };
    ctx.count("decode:ok");
    ctx.count(&format!("mode:{}", crate::maps::mode_name(map.mode)));
    if map.hit_objects.len() >= 2 {
        ctx.nontrivial(hash_bytes(&bytes));
    }

    // ---- well-formedness
    ctx.eval();
    if let Some((clause, msg)) = well_formed(&map) {
        ctx.violation(&format!("C06/well-formed/{clause}"), &format!("{msg} | src={tag} mode={:?} objects={}", map.mode, map.hit_objects.len()), Some(&input_repr));
    }

    // ---- sound / object pairing
    if let Some(exp) = expected_sounds {
        if map.mode != GameMode::Mania {
            ctx.eval();
            ctx.count("pairing_maps");
            let mut ties = 0;
            for w in map.hit_objects.windows(2) {
                if w[0].start_time == w[1].start_time {
                    ties += 1;
                }
            }
            ctx.count_n("pairing_start_time_ties", ties);
            for (k, h) in map.hit_objects.iter().enumerate() {
                let key = (h.pos.x as i64, h.pos.y as i64);
                if let Some(want) = exp.get(&key) {
                    let got: u8 = map.hit_sounds.get(k).copied().map_or(255, u8::from);
                    if got != *want {
                        ctx.violation(
                            "C06/pairing/sound-moved",
                            &format!(
                                "object #{k} at ({}, {}) t={} carries sound {got}, its line was written with sound {want} (after the custom-sample rule) | {} objects, {} start-time ties",
                                h.pos.x,
                                h.pos.y,
                                h.start_time,
                                map.hit_objects.len(),
                                ties
                            ),
                            Some(&input_repr),
                        );
                        break;
                    }
                }
            }
        }
    }

    compare_paths(ctx, &bytes, &input_repr, &tag, idx, &main_dump);

    if idx % 8 == 0 && !small {
        drive_sorters(ctx, &mut rng);
    }
    ctx.sample(|| format!("src={tag} bytes={} mode={:?} objects={} timing={} ", bytes.len(), map.mode, map.hit_objects.len(), map.timing_points.len()));
}

/// Damages the `|`-separated curve field of one slider line below `[HitObjects]`; `None` if the text has no such line.
fn damage_curve(rng: &mut Rng, text: &str) -> Option<String> {
    let lines: Vec<&str> = text.split('\n').collect();
    let start = lines.iter().position(|l| l.trim() == "[HitObjects]")? + 1;
    let cands: Vec<usize> = (start..lines.len()).filter(|&i| lines[i].split(',').nth(5).is_some_and(|c| c.contains('|'))).collect();
    if cands.is_empty() {
        return None;
    }
    let li = cands[rng.usize_below(cands.len())];
    let mut fields: Vec<String> = lines[li].split(',').map(str::to_string).collect();
    let mut toks: Vec<String> = fields[5].split('|').map(str::to_string).collect();
    match rng.below(5) {
        0 => toks.insert(1 + rng.usize_below(toks.len()), String::new()), // doubled separator (also at the very end)
        1 => toks.push(String::new()),                                       // dangling separator
        2 => {
            let k = 1 + rng.usize_below(toks.len() - 1); // a point (or a later path-type letter) lost, separators kept
            toks[k].clear();
        }
        3 => toks.insert(0, String::new()), // leading separator
        _ => {
            let k = rng.usize_below(toks.len()); // several points lost in a row
            for t in toks.iter_mut().skip(k).take(3) {
                t.clear();
            }
        }
    }
    fields[5] = toks.join("|");
    let new_line = fields.join(",");
    let mut out: Vec<&str> = lines.clone();
    out[li] = &new_line;
    Some(out.join("\n"))
}

thread_local! {
    static PREV_INPUT: std::cell::RefCell<Vec<u8>> = const { std::cell::RefCell::new(Vec::new()) };
}

/// The path of the only slider converts its first segment and then fails on the second (`12` is not a point), and a
/// second file line makes sure nothing valid follows: whatever the decoder keeps in scratch buffers is left behind.
const HALF_REJECTED_SLIDER: &str = "osu file format v14\n\n[TimingPoints]\n0,400,4,2,0,60,1,0\n\n[HitObjects]\n64,64,500,1,0\n100,100,1000,2,0,B|200:200|250:200|L|300:300|12,1,100\n";

fn compare_paths(ctx: &mut Ctx, bytes: &[u8], input_repr: &str, tag: &str, idx: u64, main: &str) {
    // from_bytes == from_path (arbitrary bytes); == from_str for valid UTF-8
    let tmp = format!("/tmp/rpv-c06-{}-{}.osu", std::process::id(), idx);
    if std::fs::write(&tmp, bytes).is_err() {
        ctx.harness_error("cannot write temp file");
        return;
    }
    // Between the three entry points the decoder is used on *other* content (the previous case's input and a file whose
    // last slider line is rejected half-way through its path): "the same content gives equal maps" must not depend on
    // what this thread decoded in between (scratch buffers, thread-locals, lazily initialised state).
    let prev: Vec<u8> = PREV_INPUT.with(|p| p.replace(bytes.to_vec()));
    let r = guard(|| {
        let a = bracket("decode", || Beatmap::from_bytes(bytes)).map_err(|e| e.kind());
        let _ = bracket("decode", || Beatmap::from_bytes(&prev));
        let b = bracket("decode", || Beatmap::from_path(&tmp)).map_err(|e| e.kind());
        let _ = bracket("decode", || Beatmap::from_bytes(HALF_REJECTED_SLIDER.as_bytes()));
        let c = std::str::from_utf8(bytes).ok().map(|s| bracket("decode", || Beatmap::from_str(s)).map_err(|e| e.kind()));
        (dump(&a), dump(&b), c.map(|c| dump(&c)))
    });
    let _ = std::fs::remove_file(&tmp);
    ctx.eval();
    match r {
        Err(p) => ctx.violation(&format!("C06/decode-panic/{}", p.sig()), &format!("{} at {} src={tag}", p.msg, p.loc), Some(input_repr)),
        Ok((a, b, c)) => {
            if a != main {
                ctx.violation("C06/paths/bytes-twice", &format!("two from_bytes calls on the same content decode differently | src={tag}"), Some(input_repr));
            }
            if a != b {
                ctx.violation("C06/paths/bytes-vs-path", &format!("from_bytes and from_path decode differently | src={tag}"), Some(input_repr));
            }
            if let Some(c) = c {
                ctx.count("paths:utf8");
                if a != c {
                    ctx.violation("C06/paths/bytes-vs-str", &format!("from_bytes and from_str decode differently | src={tag}"), Some(input_repr));
                }
            } else {
                ctx.count("paths:non-utf8");
            }
        }
    }
}
