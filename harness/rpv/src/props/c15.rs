//! C15 — gradual calculators obey the iterator protocol (sequential reference model).

use rosu_pp::{
    any::{DifficultyAttributes, ScoreState},
    model::mode::GameMode,
    Beatmap, Difficulty, GradualDifficulty,
};

use crate::{
    api,
    gen::{self, Mix},
    maps::{dump, mode_name, Domain},
    osu::Profile,
    props::{c02, c03},
    rng::{hash_str, Rng},
    runner::{api as bracket, guard, Ctx},
    sets::{self, SetSpec},
};

fn fresh(d: &Difficulty, map: &Beatmap, mode: GameMode) -> Option<GradualDifficulty> {
    match guard(|| api::gradual(d.clone(), map, mode)) {
        Ok(Ok(g)) => Some(g),
        _ => None,
    }
}

/// The same iterator protocol on the mode-specific calculator types (`OsuGradualDifficulty`, ...), which carry their own
/// `Iterator` implementations, exercised through the *consuming* adaptors (`last`, `skip(k).last()`, `count`, `step_by`,
/// `nth` by value) after a partial walk. `sd` is the plain-iteration reference of the enum-typed calculator.
fn typed_programs<I>(ctx: &mut Ctx, rng: &mut Rng, mname: &str, pred: &str, text: &str, wrap: &str, sd: &[String], mk: &dyn Fn() -> Option<I>)
where
    I: ExactSizeIterator,
    I::Item: std::fmt::Debug,
{
    let total = sd.len();
    let d = |v: &I::Item| format!("{wrap}({v:?})");
    let fail = |ctx: &mut Ctx, clause: &str, msg: String| {
        ctx.violation(&format!("C15/{mname}/typed/{clause}/{pred}"), &format!("{msg} (mode-specific calculator type, total {total})"), Some(text));
    };
    // plain iteration of the typed calculator is the enum's sequence
    let Some(g) = mk() else { return };
    let announced = g.len();
    let r = guard(|| bracket("gradual_difficulty::typed", || g.map(|v| d(&v)).collect::<Vec<String>>()));
    ctx.eval();
    match r {
        Ok(seq) => {
            if seq != sd || announced != total {
                fail(ctx, "sequence", format!("typed calculator yields {} values (announced {announced}), the enum-typed one {total}; equal values: {}", seq.len(), seq.iter().zip(sd).filter(|(a, b)| a == b).count()));
                return;
            }
        }
        Err(p) => {
            fail(ctx, &format!("panic/{}", p.sig()), format!("plain iteration panicked: {} at {}", p.msg, p.loc));
            return;
        }
    }
    for _ in 0..6 {
        let Some(mut g) = mk() else { return };
        let k = c03::gen_k(rng, total).min(total + 3);
        let walked = k.min(total);
        let opn = rng.below(7);
        let r = guard(|| {
            bracket("gradual_difficulty::typed", || -> Result<(), String> {
                for _ in 0..k {
                    if g.next().is_none() {
                        break;
                    }
                }
                let rem = total - walked;
                match opn {
                    0 => {
                        let got = g.last().map(|v| d(&v));
                        let want = if rem > 0 { sd.last().cloned() } else { None };
                        if got != want {
                            return Err(format!("last() by value after {walked} next(): is_some={} expected is_some={}", got.is_some(), want.is_some()));
                        }
                    }
                    1 => {
                        let j = rng_free_index(k, rem);
                        let got = g.skip(j).last().map(|v| d(&v));
                        let want = if j < rem { sd.last().cloned() } else { None };
                        if got != want {
                            return Err(format!("skip({j}).last() after {walked} next(): is_some={} expected is_some={}", got.is_some(), want.is_some()));
                        }
                    }
                    2 => {
                        let c = g.count();
                        if c != rem {
                            return Err(format!("count() by value after {walked} next(): {c}, expected {rem}"));
                        }
                    }
                    3 => {
                        let j = rng_free_index(k, rem);
                        let c = g.skip(j).count();
                        if c != rem.saturating_sub(j) {
                            return Err(format!("skip({j}).count() after {walked} next(): {c}, expected {}", rem.saturating_sub(j)));
                        }
                    }
                    4 => {
                        let step = 1 + k % 4;
                        let got = g.step_by(step).map(|v| d(&v)).collect::<Vec<_>>();
                        let want: Vec<String> = sd.iter().skip(walked).step_by(step).cloned().collect();
                        if got != want {
                            return Err(format!("step_by({step}) by value after {walked} next(): {} values, expected {}", got.len(), want.len()));
                        }
                    }
                    5 => {
                        let (l, sh) = (g.len(), g.size_hint());
                        if l != rem || sh != (rem, Some(rem)) {
                            return Err(format!("len()/size_hint() after {walked} next(): {l} / {sh:?}, expected {rem}"));
                        }
                    }
                    _ => {
                        let j = rng_free_index(k, rem);
                        let got = g.nth(j).map(|v| d(&v));
                        let want = if j < rem { sd.get(walked + j).cloned() } else { None };
                        if got != want {
                            return Err(format!("nth({j}) after {walked} next(): is_some={} expected is_some={}", got.is_some(), want.is_some()));
                        }
                        let l = g.len();
                        let want_l = rem.saturating_sub(j + 1);
                        if l != want_l {
                            return Err(format!("len() after nth({j}) after {walked} next(): {l}, expected {want_l}"));
                        }
                    }
                }
                Ok(())
            })
        });
        ctx.eval();
        ctx.count("typed_programs");
        match r {
            Ok(Ok(())) => {}
            Ok(Err(msg)) => {
                let clause = msg.split(['(', ' ']).next().unwrap_or("op").to_string();
                fail(ctx, &clause, msg);
                return;
            }
            Err(p) => {
                fail(ctx, &format!("panic/{}", p.sig()), format!("panic: {} at {} (op {opn}, after {walked} next())", p.msg, p.loc));
                return;
            }
        }
    }
}

/// A second index derived from the first without touching the generator inside the guarded closure.
fn rng_free_index(k: usize, rem: usize) -> usize {
    match k % 5 {
        0 => 0,
        1 => 1,
        2 => rem.saturating_sub(1),
        3 => rem,
        _ => rem / 2,
    }
}

#[allow(clippy::too_many_lines)]
pub fn case(ctx: &mut Ctx, idx: u64) {
    let mut rng = Rng::for_case(ctx.seed, "C15", idx);
    let max_objects = if ctx.thorough() { 100 } else { 40 };
    let mx = if rng.chance(0.5) {
        Mix {
            realistic: true,
            max_objects,
            profiles: Some(vec![Profile::Tiny, Profile::Tiny, Profile::NonHitFirst, Profile::Spinners, Profile::Holds]),
            fixtures: false,
            mode: None,
        }
    } else {
        Mix {
            realistic: true,
            max_objects,
            ..Mix::default()
        }
    };
    let Some((mc, map)) = gen::gen_domain_map_ext(&mut rng, &mx, Domain::Realistic, 0, 10) else {
        ctx.count("skipped_no_domain_map");
        return;
    };
    let mode = gen::pick_mode(&mut rng, &map);
    let spec: SetSpec = c02::settings(&mut rng, mode, &map);
    let mname = mode_name(mode);
    let d = spec.to_difficulty(mode);
    let pred = c02::predicate(&map, mode, &spec);

    // reference sequence S from plain next()
    let Some(mut g0) = fresh(&d, &map, mode) else {
        ctx.count("skipped_convert_error");
        return;
    };
    let mut s: Vec<DifficultyAttributes> = Vec::new();
    let announced = g0.len();
    let r = guard(|| {
        while s.len() < announced + 8 {
            match api::g_next(&mut g0) {
                Some(v) => s.push(v),
                None => break,
            }
        }
    });
    if let Err(p) = r {
        ctx.violation(
            &format!("C15/{mname}/reference-next-panic/{}/{pred}", p.sig()),
            &format!("plain next() iteration panicked: {} at {} | {}", p.msg, p.loc, spec.describe()),
            Some(&mc.text),
        );
        return;
    }
    let total = s.len();
    let sd: Vec<String> = s.iter().map(dump).collect();
    ctx.count(&format!("mode:{mname}"));
    if total <= 3 {
        ctx.count("class:short-sequence(<=3)");
    }
    ctx.max("max_sequence_len", total as u64);

    if announced != total {
        ctx.violation(
            &format!("C15/{mname}/len-at-creation/{pred}"),
            &format!("len() at creation = {announced}, plain iteration yields {total}"),
            Some(&mc.text),
        );
    }

    let n_programs = 4;
    for prog in 0..n_programs {
        let Some(mut g) = fresh(&d, &map, mode) else { return };
        let mut p = 0usize; // model position
        let mut trace: Vec<String> = Vec::new();
        let n_ops = 3 + rng.usize_below(10);
        let mut failed = false;
        for _ in 0..n_ops {
            let rem = total - p;
            let k = c03::gen_k(&mut rng, rem);
            let opn = rng.below(12);
            let res = guard(|| -> Result<usize, String> {
                match opn {
                    0 | 1 => {
                        trace.push("next".into());
                        let got = api::g_next(&mut g).map(|v| dump(&v));
                        let want = sd.get(p).cloned();
                        if got != want {
                            return Err(format!("next@{p}: got {got:?} want {want:?}"));
                        }
                        Ok((p + 1).min(total))
                    }
                    2..=4 => {
                        trace.push(format!("nth({k})"));
                        let got = api::g_nth(&mut g, k).map(|v| dump(&v));
                        let (want, np) = if k < rem { (sd.get(p + k).cloned(), p + k + 1) } else { (None, total) };
                        if got != want {
                            return Err(format!(
                                "nth({k})@{p} (remaining {rem}): got {} want {}",
                                got.as_deref().map_or("None".into(), |s| format!("Some(value #{})", sd.iter().position(|x| x == s).map_or(-1, |i| i as i64))),
                                want.as_deref().map_or("None".into(), |_| format!("Some(value #{})", p + k))
                            ));
                        }
                        Ok(np)
                    }
                    5 => {
                        trace.push("len/size_hint".into());
                        let l = bracket("gradual_difficulty::len", || g.len());
                        let sh = g.size_hint();
                        if l != rem || sh != (rem, Some(rem)) {
                            return Err(format!("len@{p}: len()={l} size_hint={sh:?} want {rem}"));
                        }
                        Ok(p)
                    }
                    6 => {
                        let step = 1 + k.min(7);
                        let j = 1 + (rem.min(4));
                        trace.push(format!("by_ref().step_by({step}).take({j})"));
                        let got: Vec<String> = bracket("gradual_difficulty::step_by", || {
                            g.by_ref().step_by(step).take(j).map(|v| dump(&v)).collect()
                        });
                        let mut want = Vec::new();
                        let mut np = p;
                        for t in 0..j {
                            let pos = p + t * step;
                            if pos < total {
                                want.push(sd[pos].clone());
                                np = pos + 1;
                            } else {
                                np = total;
                                break;
                            }
                        }
                        if got != want {
                            return Err(format!(
                                "step_by({step}).take({j})@{p}: got {} values, want {} values; positions got={:?} want start {p}",
                                got.len(),
                                want.len(),
                                got.iter().map(|s| sd.iter().position(|x| x == s).map_or(-1, |i| i as i64)).collect::<Vec<_>>()
                            ));
                        }
                        Ok(np)
                    }
                    7 => {
                        trace.push(format!("by_ref().skip({k}).next()"));
                        let got = bracket("gradual_difficulty::skip", || g.by_ref().skip(k).next().map(|v| dump(&v)));
                        let (want, np) = if k < rem { (sd.get(p + k).cloned(), p + k + 1) } else { (None, total) };
                        if got != want {
                            return Err(format!("skip({k}).next()@{p} (remaining {rem}): got is_some={} want is_some={}", got.is_some(), want.is_some()));
                        }
                        Ok(np)
                    }
                    8 => {
                        let j = k.min(5);
                        trace.push(format!("by_ref().take({j}).collect()"));
                        let got: Vec<String> = bracket("gradual_difficulty::take", || g.by_ref().take(j).map(|v| dump(&v)).collect());
                        let want: Vec<String> = sd.iter().skip(p).take(j).cloned().collect();
                        if got != want {
                            return Err(format!("take({j})@{p}: got {} want {}", got.len(), want.len()));
                        }
                        Ok((p + j).min(total))
                    }
                    9 => {
                        trace.push("by_ref().count()".into());
                        let c = bracket("gradual_difficulty::count", || g.by_ref().count());
                        if c != rem {
                            return Err(format!("count()@{p}: got {c} want {rem}"));
                        }
                        Ok(total)
                    }
                    10 => {
                        trace.push("by_ref().last()".into());
                        let got = bracket("gradual_difficulty::last", || g.by_ref().last().map(|v| dump(&v)));
                        let want = if rem > 0 { sd.last().cloned() } else { None };
                        if got != want {
                            return Err(format!("last()@{p}: got is_some={} want is_some={}", got.is_some(), want.is_some()));
                        }
                        Ok(total)
                    }
                    _ => {
                        trace.push(format!("nth({k})+3xnext after"));
                        // jump to the end then poke the exhausted iterator
                        let _ = api::g_nth(&mut g, usize::MAX);
                        for _ in 0..3 {
                            if api::g_next(&mut g).is_some() {
                                return Err("next() returned a value after nth(usize::MAX)".into());
                            }
                        }
                        if api::g_nth(&mut g, 0).is_some() || api::g_nth(&mut g, usize::MAX).is_some() {
                            return Err("nth() returned a value on an exhausted iterator".into());
                        }
                        let l = g.len();
                        if l != 0 {
                            return Err(format!("len() = {l} on an exhausted iterator"));
                        }
                        Ok(total)
                    }
                }
            });
            ctx.eval();
            match res {
                Ok(Ok(np)) => p = np,
                Ok(Err(msg)) => {
                    let clause = msg.split(['@', '(', ' ']).next().unwrap_or("op").to_string();
                    ctx.violation(
                        &format!("C15/{mname}/diff/{clause}/{pred}"),
                        &format!("{msg}\n program={trace:?} total={total} settings=[{}] src={}", spec.describe(), mc.tag),
                        Some(&mc.text),
                    );
                    failed = true;
                    break;
                }
                Err(pi) => {
                    ctx.violation(
                        &format!("C15/{mname}/diff/op-panic/{}/{pred}", pi.sig()),
                        &format!(
                            "panic in program {trace:?} at model position {p}/{total}: {} at {} settings=[{}]",
                            pi.msg,
                            pi.loc,
                            spec.describe()
                        ),
                        Some(&mc.text),
                    );
                    failed = true;
                    break;
                }
            }
        }
        if total >= 2 {
            ctx.nontrivial(hash_str(&mc.text) ^ hash_str(&spec.describe()) ^ hash_str(&format!("{trace:?}")));
        }
        if prog == 0 {
            ctx.sample(|| format!("mode={mname} src={} total={total} program={trace:?}", mc.tag));
        }
        if failed {
            break;
        }
    }

    // mode-specific calculator types, consuming adaptors
    {
        use rosu_pp::{catch::CatchGradualDifficulty, mania::ManiaGradualDifficulty, osu::OsuGradualDifficulty, taiko::TaikoGradualDifficulty};
        let text = mc.text.as_str();
        match mode {
            GameMode::Osu => typed_programs(ctx, &mut rng, mname, &pred, text, "Osu", &sd, &|| OsuGradualDifficulty::new(d.clone(), &map).ok()),
            GameMode::Taiko => typed_programs(ctx, &mut rng, mname, &pred, text, "Taiko", &sd, &|| TaikoGradualDifficulty::new(d.clone(), &map).ok()),
            GameMode::Catch => typed_programs(ctx, &mut rng, mname, &pred, text, "Catch", &sd, &|| CatchGradualDifficulty::new(d.clone(), &map).ok()),
            GameMode::Mania => typed_programs(ctx, &mut rng, mname, &pred, text, "Mania", &sd, &|| ManiaGradualDifficulty::new(d.clone(), &map).ok()),
        }
    }

    // zip of two fresh instances sees the same pairs
    if let (Some(a), Some(b)) = (fresh(&d, &map, mode), fresh(&d, &map, mode)) {
        let r = guard(|| {
            bracket("gradual_difficulty::zip", || a.zip(b).map(|(x, y)| (dump(&x), dump(&y))).collect::<Vec<_>>())
        });
        ctx.eval();
        match r {
            Ok(pairs) => {
                let ok = pairs.len() == total && pairs.iter().zip(sd.iter()).all(|((x, y), w)| x == w && y == w);
                if !ok {
                    ctx.violation(
                        &format!("C15/{mname}/diff/zip/{pred}"),
                        &format!("zip of two fresh instances yields {} pairs, plain iteration {total}", pairs.len()),
                        Some(&mc.text),
                    );
                }
            }
            Err(pi) => ctx.violation(
                &format!("C15/{mname}/diff/zip-panic/{}/{pred}", pi.sig()),
                &format!("zip panicked: {} at {}", pi.msg, pi.loc),
                Some(&mc.text),
            ),
        }
    }

    // ---- gradual performance: nth/last/next vs the next-only difficulty sequence
    let Ok(Ok(mut gp)) = guard(|| api::gradual_perf(d.clone(), &map, mode)) else { return };
    let mut q = 0usize;
    let mut trace: Vec<String> = Vec::new();
    for _ in 0..(3 + rng.usize_below(8)) {
        let rem = total - q;
        let k = c03::gen_k(&mut rng, rem);
        let state: ScoreState = sets::gen_state(&mut rng, (q + 1) as u32);
        let opn = rng.below(5);
        let (name, consumed) = match opn {
            0 | 1 => ("next".to_string(), 1.min(rem)),
            2 | 3 => (format!("nth({k})"), k.saturating_add(1).min(rem)),
            _ => ("last".to_string(), rem),
        };
        trace.push(name.clone());
        let st = state.clone();
        let r = guard(|| match opn {
            0 | 1 => api::gp_next(&mut gp, st),
            2 | 3 => api::gp_nth(&mut gp, st, k),
            _ => api::gp_last(&mut gp, st),
        });
        ctx.eval();
        let got = match r {
            Ok(v) => v,
            Err(pi) => {
                ctx.violation(
                    &format!("C15/{mname}/perf/op-panic/{}/{pred}", pi.sig()),
                    &format!("gradual performance {name} panicked at {q}/{total}: {} at {} trace={trace:?}", pi.msg, pi.loc),
                    Some(&mc.text),
                );
                return;
            }
        };
        if (rem == 0) != got.is_none() {
            ctx.violation(
                &format!("C15/{mname}/perf/none-iff-exhausted/{pred}"),
                &format!("{name} at {q}/{total}: returned is_some={} with {rem} remaining; trace={trace:?}", got.is_some()),
                Some(&mc.text),
            );
            return;
        }
        q += consumed;
        if let Some(got) = got {
            // the `next`-only run at the same index with the same state
            let base = s[q - 1].clone();
            let want = guard(|| {
                api::perf_calc(base.performance().state(state.clone()).difficulty(d.clone()).passed_objects(q as u32))
            });
            if let Ok(want) = want {
                if dump(&got) != dump(&want) {
                    ctx.violation(
                        &format!("C15/{mname}/perf/value/{pred}"),
                        &format!(
                            "{name} reached index {q}/{total}; differs from the next-only run at that index. trace={trace:?} state={state:?}\n got : {}\n want: {}",
                            dump(&got),
                            dump(&want)
                        ),
                        Some(&mc.text),
                    );
                    return;
                }
            }
        }
        let l = gp.len();
        if l != total - q {
            ctx.violation(
                &format!("C15/{mname}/perf/len/{pred}"),
                &format!("len()={l} but {} remain; trace={trace:?}", total - q),
                Some(&mc.text),
            );
            return;
        }
    }
}
