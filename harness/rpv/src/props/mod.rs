//! One monitor per property.

use rosu_pp::any::{DifficultyAttributes, PerformanceAttributes};

use crate::maps::{diff_floats, perf_floats};

pub mod c01;
pub mod c02;
pub mod c03;
pub mod c04;
pub mod c05;
pub mod c06;
pub mod c07;
pub mod c08;
pub mod c09;
pub mod c10;
pub mod c11;
pub mod c12;
pub mod c13;
pub mod c14;
pub mod c16;
pub mod c17;
pub mod c18;
pub mod c19;
pub mod c20;
pub mod c15;

/// Names of the fields in which two difficulty attribute values differ (bitwise for floats).
pub fn diff_fields(a: &DifficultyAttributes, b: &DifficultyAttributes) -> Vec<String> {
    let mut out = Vec::new();
    if std::mem::discriminant(a) != std::mem::discriminant(b) {
        out.push("mode".to_string());
        return out;
    }
    for ((n, x), (_, y)) in diff_floats(a).into_iter().zip(diff_floats(b)) {
        if x.to_bits() != y.to_bits() {
            out.push(n.to_string());
        }
    }
    let ints = |a: &DifficultyAttributes| -> Vec<(&'static str, u64)> {
        match a {
            DifficultyAttributes::Osu(a) => vec![
                ("n_circles", a.n_circles.into()),
                ("n_sliders", a.n_sliders.into()),
                ("n_large_ticks", a.n_large_ticks.into()),
                ("n_spinners", a.n_spinners.into()),
                ("max_combo", a.max_combo.into()),
            ],
            DifficultyAttributes::Taiko(a) => vec![("max_combo", a.max_combo.into()), ("is_convert", a.is_convert.into())],
            DifficultyAttributes::Catch(a) => vec![
                ("n_fruits", a.n_fruits.into()),
                ("n_droplets", a.n_droplets.into()),
                ("n_tiny_droplets", a.n_tiny_droplets.into()),
                ("is_convert", a.is_convert.into()),
            ],
            DifficultyAttributes::Mania(a) => vec![
                ("n_objects", a.n_objects.into()),
                ("n_hold_notes", a.n_hold_notes.into()),
                ("max_combo", a.max_combo.into()),
                ("is_convert", a.is_convert.into()),
            ],
        }
    };
    for ((n, x), (_, y)) in ints(a).into_iter().zip(ints(b)) {
        if x != y {
            out.push(n.to_string());
        }
    }
    out
}

pub fn perf_diff_fields(a: &PerformanceAttributes, b: &PerformanceAttributes) -> Vec<String> {
    let mut out = Vec::new();
    if std::mem::discriminant(a) != std::mem::discriminant(b) {
        out.push("mode".to_string());
        return out;
    }
    let (pa, pb) = (perf_floats(a), perf_floats(b));
    if pa.len() != pb.len() {
        out.push("optional".to_string());
    }
    for ((n, x), (_, y)) in pa.into_iter().zip(pb) {
        if x.to_bits() != y.to_bits() {
            out.push(n.to_string());
        }
    }
    for f in diff_fields(&a.difficulty_attributes(), &b.difficulty_attributes()) {
        out.push(format!("difficulty.{f}"));
    }
    out
}

/// Summarise a field list for a signature: floats collapse to "floats", ints stay by name.
pub fn sig_fields(fields: &[String]) -> String {
    const INTS: &[&str] = &[
        "n_circles", "n_sliders", "n_large_ticks", "n_spinners", "max_combo", "is_convert", "n_fruits", "n_droplets",
        "n_tiny_droplets", "n_objects", "n_hold_notes", "mode", "optional",
    ];
    let mut v: Vec<String> = Vec::new();
    let mut floats = false;
    for f in fields {
        let base = f.rsplit('.').next().unwrap_or(f);
        if INTS.contains(&base) {
            if !v.contains(&base.to_string()) {
                v.push(base.to_string());
            }
        } else {
            floats = true;
        }
    }
    if floats {
        v.push("floats".into());
    }
    if v.is_empty() {
        "none".into()
    } else {
        v.join("+")
    }
}

pub type CaseFn = fn(&mut crate::runner::Ctx, u64);

pub fn lookup(prop: &str) -> Option<CaseFn> {
    Some(match prop {
        "C01" => c01::case,
        "C02" => c02::case,
        "C03" => c03::case,
        "C04" => c04::case,
        "C05" => c05::case,
        "C06" => c06::case,
        "C07" => c07::case,
        "C08" => c08::case,
        "C09" => c09::case,
        "C10" => c10::case,
        "C11" => c11::case,
        "C12" => c12::case,
        "C13" => c13::case,
        "C14" => c14::case,
        "C16" => c16::case,
        "C17" => c17::case,
        "C18" => c18::case,
        "C19" => c19::case,
        "C20" => c20::case,
        "C15" => c15::case,
        _ => return None,
    })
}

/// Size of the finite case space that a property enumerates completely (if any).
pub fn case_count(prop: &str, tier: crate::runner::Tier) -> Option<u64> {
    match prop {
        "C12" => Some(c12::case_count(tier)),
        "C13" => Some(c13::case_count(tier)),
        _ => None,
    }
}
