//! C09 — stars, pp and all reported attributes are finite and non-negative.

use rosu_pp::{
    any::{DifficultyAttributes, ScoreState},
    catch::CatchScoreState,
    mania::ManiaScoreState,
    model::mode::GameMode,
    osu::{OsuScoreOrigin, OsuScoreState},
    taiko::TaikoScoreState,
    Performance,
};

use crate::{
    api,
    gen::{self, Mix},
    maps::{diff_floats, diff_nonneg, dump, mode_name, perf_floats, strain_vecs, unit_count, Domain},
    osu::Profile,
    rng::{hash_str, Rng},
    runner::{guard, Ctx},
    sets::{self, SetDomain},
};

/// A score state consistent with the object counts of `attrs`.
pub fn consistent_state(rng: &mut Rng, attrs: &DifficultyAttributes, lazer_non_classic: bool) -> ScoreState {
    let mut st = ScoreState::new();
    let part = |rng: &mut Rng, n: u32, k: usize, style: u64| -> Vec<u32> {
        // partition n into k parts
        let mut v = vec![0u32; k];
        match style {
            0 => v[0] = n, // all best
            1 => v[k - 1] = n, // all misses
            2 => {
                // single non-best
                if n > 0 {
                    v[0] = n - 1;
                    v[1 + rng.usize_below(k - 1)] = 1;
                }
            }
            3 => v[k - 2] = n, // all worst non-miss
            _ => {
                let mut rem = n;
                for slot in v.iter_mut().skip(1) {
                    let x = if rng.chance(0.5) { rng.below(u64::from(rem) + 1) as u32 } else { 0 };
                    *slot = x;
                    rem -= x;
                }
                v[0] = rem;
            }
        }
        v
    };
    let style = rng.below(8);
    match attrs {
        DifficultyAttributes::Osu(a) => {
            let p = part(rng, a.n_objects(), 4, style);
            st.n300 = p[0];
            st.n100 = p[1];
            st.n50 = p[2];
            st.misses = p[3];
            st.max_combo = low_or_any(rng, a.max_combo);
            if style == 0 {
                st.max_combo = a.max_combo;
            }
            st.osu_large_tick_hits = rng.below(u64::from(a.n_large_ticks + if lazer_non_classic { 0 } else { a.n_sliders }) + 1) as u32;
            st.osu_small_tick_hits = rng.below(u64::from(a.n_sliders) + 1) as u32;
            st.slider_end_hits = rng.below(u64::from(a.n_sliders) + 1) as u32;
            if style == 0 {
                st.osu_large_tick_hits = a.n_large_ticks + if lazer_non_classic { 0 } else { a.n_sliders };
                st.osu_small_tick_hits = a.n_sliders;
                st.slider_end_hits = a.n_sliders;
            }
        }
        DifficultyAttributes::Taiko(a) => {
            let p = part(rng, a.max_combo, 3, style);
            st.n300 = p[0];
            st.n100 = p[1];
            st.misses = p[2];
            st.max_combo = low_or_any(rng, a.max_combo - p[2]);
            if style == 0 {
                st.max_combo = a.max_combo;
            }
        }
        DifficultyAttributes::Catch(a) => {
            let fruits_hit = rng.below(u64::from(a.n_fruits) + 1) as u32;
            let droplets_hit = rng.below(u64::from(a.n_droplets) + 1) as u32;
            let tiny_hit = rng.below(u64::from(a.n_tiny_droplets) + 1) as u32;
            let (f, d, t) = match style {
                0 => (a.n_fruits, a.n_droplets, a.n_tiny_droplets),
                1 => (0, 0, 0),
                _ => (fruits_hit, droplets_hit, tiny_hit),
            };
            st.n300 = f;
            st.n100 = d;
            st.n50 = t;
            st.n_katu = a.n_tiny_droplets - t;
            st.misses = a.n_fruits + a.n_droplets - f - d;
            st.max_combo = low_or_any(rng, (f + d).min(a.max_combo()));
            if style == 0 {
                st.max_combo = a.max_combo();
            }
        }
        DifficultyAttributes::Mania(a) => {
            let n = a.n_objects + if lazer_non_classic { a.n_hold_notes } else { 0 };
            let p = part(rng, n, 6, style);
            st.n_geki = p[0];
            st.n300 = p[1];
            st.n_katu = p[2];
            st.n100 = p[3];
            st.n50 = p[4];
            st.misses = p[5];
        }
    }
    st
}

/// A combo in `0..=max`: half of the time one of the smallest values (0, 1, 2, ..5), otherwise uniform.
fn low_or_any(rng: &mut Rng, max: u32) -> u32 {
    if rng.chance(0.5) {
        (rng.below(6) as u32).min(max)
    } else {
        rng.below(u64::from(max) + 1) as u32
    }
}

fn accuracy_of(st: &ScoreState, attrs: &DifficultyAttributes, lazer: bool, classic: bool) -> f64 {
    match attrs {
        DifficultyAttributes::Osu(a) => {
            let s: OsuScoreState = st.clone().into();
            let origin = match (lazer, classic) {
                (false, _) => OsuScoreOrigin::Stable,
                (true, false) => OsuScoreOrigin::WithSliderAcc {
                    max_large_ticks: a.n_large_ticks,
                    max_slider_ends: a.n_sliders,
                },
                (true, true) => OsuScoreOrigin::WithoutSliderAcc {
                    max_large_ticks: a.n_sliders + a.n_large_ticks,
                    max_small_ticks: a.n_sliders,
                },
            };
            s.accuracy(origin)
        }
        DifficultyAttributes::Taiko(_) => {
            let s: TaikoScoreState = st.clone().into();
            s.accuracy()
        }
        DifficultyAttributes::Catch(_) => {
            let s: CatchScoreState = st.clone().into();
            s.accuracy()
        }
        DifficultyAttributes::Mania(_) => {
            let s: ManiaScoreState = st.clone().into();
            s.accuracy(classic || !lazer)
        }
    }
}

#[allow(clippy::too_many_lines)]
pub fn case(ctx: &mut Ctx, idx: u64) {
    let mut rng = Rng::for_case(ctx.seed, "C09", idx);
    let max_objects = if ctx.thorough() { 200 } else { 70 };
    let mx = match rng.below(3) {
        0 => Mix {
            realistic: true,
            max_objects,
            profiles: Some(vec![Profile::Tiny, Profile::Spinners, Profile::Stacked, Profile::Dense, Profile::Editor, Profile::NonHitFirst]),
            fixtures: false,
            mode: None,
        },
        1 => Mix {
            realistic: true,
            max_objects,
            profiles: Some(vec![Profile::Gaps, Profile::Dense, Profile::Stacked]),
            fixtures: false,
            mode: None,
        },
        _ => Mix {
            realistic: true,
            max_objects,
            ..Mix::default()
        },
    };
    // one case in 150: a long plain map - the length bonuses of the performance calculators only open beyond 1 500 - 2 500 hits
    let long = rng.below(150) == 0;
    let generated = if long {
        let file_mode = *rng.pick(&[0u8, 0, 1, 2, 2, 3]);
        let f = crate::osu::long_file(&mut rng, file_mode);
        let text = f.render();
        crate::maps::decode(&text).map(|m| (gen::MapCase { text, tag: "long".into() }, m))
    } else {
        gen::gen_domain_map(&mut rng, &mx, Domain::Realistic)
    };
    let Some((mc, map)) = generated else {
        ctx.count("skipped_no_domain_map");
        return;
    };
    if long {
        ctx.count("class:long-map(>=1500 objects)");
    }
    let mode = gen::pick_mode(&mut rng, &map);
    let mname = mode_name(mode);
    let mut spec = sets::gen_setspec(&mut rng, mode, SetDomain::Game);
    let text = mc.text.as_str();
    if crate::maps::est_sections(&map, 0.5) > 200_000.0 {
        ctx.count("skipped_too_many_sections");
        return;
    }
    // every prefix (sampled)
    let n_obj = map.hit_objects.len() as u32;
    let mut prefixes: Vec<Option<u32>> = vec![None, Some(0), Some(1), Some(2)];
    for _ in 0..4 {
        prefixes.push(Some(rng.below(u64::from(n_obj) * 3 + 2) as u32));
    }
    if long {
        prefixes = vec![None, Some(0), Some(n_obj / 2 + rng.below(u64::from(n_obj)) as u32)];
    }
    ctx.count(&format!("mode:{mname}"));
    if map.hit_objects.is_empty() {
        ctx.count("class:empty-map");
    }
    if map.hit_objects.len() == 1 {
        ctx.count("class:single-object");
    }
    if !map.hit_objects.is_empty() && map.hit_objects.iter().all(|h| h.is_spinner()) {
        ctx.count("class:all-spinner");
    }
    if map.hit_objects.len() >= 2 {
        ctx.nontrivial(hash_str(text) ^ hash_str(&spec.describe()) ^ (mode as u64));
    }

    for passed in prefixes {
        spec.passed = passed;
        let d = spec.to_difficulty(mode);
        let ctxs = format!("mode={mname} src={} settings=[{}]", mc.tag, spec.describe());
        let attrs = match guard(|| api::calc_for_mode(&d, &map, mode)) {
            Ok(Ok(a)) => a,
            Ok(Err(_)) => return,
            Err(p) => {
                ctx.violation(&format!("C09/{mname}/difficulty-panic/{}", p.sig()), &format!("{} at {} | {ctxs}", p.msg, p.loc), Some(text));
                return;
            }
        };
        ctx.eval();
        for (name, v) in diff_floats(&attrs) {
            if !v.is_finite() || (diff_nonneg(name) && v < 0.0) {
                ctx.violation(
                    &format!("C09/{mname}/difficulty/{name}/{}", classify(v)),
                    &format!("difficulty attribute {name} = {v:?} | {ctxs}\n attrs: {}", dump(&attrs)),
                    Some(text),
                );
            }
        }
        // strains
        if passed.is_none() || rng.chance(0.3) {
            if let Ok(Ok(s)) = guard(|| api::strains_for_mode(&d, &map, mode)) {
                ctx.eval();
                for (name, v) in strain_vecs(&s) {
                    if let Some((i, x)) = v.iter().enumerate().find(|(_, x)| !x.is_finite() || **x < 0.0) {
                        ctx.violation(
                            &format!("C09/{mname}/strains/{name}/{}", classify(*x)),
                            &format!("strain peak {name}[{i}] = {x:?} | {ctxs}"),
                            Some(text),
                        );
                    }
                }
            }
        }
        // performance with states consistent with the counts
        let lazer = spec.lazer.unwrap_or(true);
        let classic = match mode {
            GameMode::Osu => {
                // mirrors the documented rule: stable => classic; lazer => CL mod setting
                !lazer
                    || (spec.mods.is_lazer_like() && spec.mods.extra.cl.is_some_and(|c| c.unwrap_or(true)))
            }
            _ => !lazer || (spec.mods.is_lazer_like() && spec.mods.extra.cl.is_some()),
        };
        let units = unit_count(&attrs);
        for k in 0..3 {
            let st = if k == 0 && units == 0 {
                ScoreState::new()
            } else {
                consistent_state(&mut rng, &attrs, lazer && !classic)
            };
            let acc = accuracy_of(&st, &attrs, lazer, classic);
            ctx.eval();
            if !(0.0..=1.0).contains(&acc) {
                ctx.violation(
                    &format!("C09/{mname}/accuracy-range"),
                    &format!("accuracy {acc:?} outside [0,1] for state {st:?} | {ctxs}\n attrs: {}", dump(&attrs)),
                    Some(text),
                );
            }
            let r = guard(|| api::perf_calc(Performance::new(attrs.clone()).difficulty(d.clone()).state(st.clone())));
            let res = match r {
                Ok(r) => r,
                Err(p) => {
                    ctx.violation(
                        &format!("C09/{mname}/performance-panic/{}", p.sig()),
                        &format!("{} at {} state={st:?} | {ctxs}", p.msg, p.loc),
                        Some(text),
                    );
                    continue;
                }
            };
            ctx.eval();
            for (name, v) in perf_floats(&res) {
                if !v.is_finite() || v < 0.0 {
                    ctx.violation(
                        &format!("C09/{mname}/performance/{name}/{}", classify(v)),
                        &format!("performance attribute {name} = {v:?} state={st:?} | {ctxs}\n result: {}", dump(&res)),
                        Some(text),
                    );
                }
            }
            // a play over zero objects is worth zero pp
            if units == 0 || passed == Some(0) {
                ctx.count("class:zero-objects-play");
                if res.pp() != 0.0 {
                    ctx.violation(
                        &format!("C09/{mname}/zero-hits-nonzero-pp"),
                        &format!("pp = {:?} for a play over zero objects state={st:?} | {ctxs}", res.pp()),
                        Some(text),
                    );
                }
            }
        }
    }
    ctx.sample(|| format!("mode={mname} src={} objects={} settings=[{}]", mc.tag, map.hit_objects.len(), spec.describe()));
}

fn classify(v: f64) -> &'static str {
    if v.is_nan() {
        "nan"
    } else if v.is_infinite() {
        "inf"
    } else if v < 0.0 {
        "negative"
    } else {
        "ok"
    }
}
