//! C10 — cargo features `raw_strains` and `sync` never change any result.
//!
//! The same seeded job list is executed by four separately built binaries (default, raw_strains,
//! sync, raw_strains+sync); every result digest goes to the history log and the driver joins the
//! four logs. In-process only panics are judged.

use rosu_pp::{verif_hooks::StrainsVec, Performance};

use crate::{
    api,
    gen::{self, Mix},
    maps::{self, dump, mode_name, Domain},
    osu::Profile,
    rng::{hash_str, Rng},
    runner::{guard, Ctx},
    sets::{self},
};

/// Operation sequence on the compact strain list over non-negative finite values; the digest of
/// everything observable must be identical in every build.
pub fn strains_vec_program(rng: &mut Rng) -> String {
    let big = rng.chance(0.1);
    let n = if big { rng.usize_below(5000) } else { rng.usize_below(120) };
    let cap = rng.usize_below(16);
    let mut v = StrainsVec::with_capacity(cap);
    let mut out = String::new();
    let mut pushed = 0usize;
    let mut i = 0;
    while i < n {
        if rng.chance(0.25) {
            // a run of zeros
            let long = rng.chance(0.1);
            let run = 1 + rng.usize_below(if long { 3000 } else { 12 });
            for _ in 0..run {
                v.push(0.0);
                pushed += 1;
            }
            i += run;
        } else {
            let x = match rng.below(6) {
                0 => f64::MIN_POSITIVE,
                1 => 5e-324,
                2 => (rng.range(1, 1000) as f64) / 7.0,
                3 => 1e300,
                _ => rng.frange(0.0, 500.0),
            };
            v.push(x);
            pushed += 1;
            i += 1;
        }
    }
    out.push_str(&format!("len={} pushed={pushed};", v.len()));
    out.push_str(&format!("sum={:?};", (v.sum() + 0.0).to_bits()));
    let it: Vec<u64> = v.iter().map(f64::to_bits).collect();
    out.push_str(&format!("iter={};", hash_str(&format!("{it:?}"))));
    out.push_str(&format!("iterlen={};", v.iter().len()));
    let expanded = v.clone().into_vec();
    out.push_str(&format!("into_vec={}x{};", expanded.len(), hash_str(&format!("{:?}", expanded.iter().map(|x| x.to_bits()).collect::<Vec<_>>()))));
    match rng.below(3) {
        0 => {
            let mut c = v.clone();
            c.retain_non_zero_and_sort();
            // SAFETY: zeros were just removed (contract of the method)
            let t = unsafe { c.transmute_into_vec() };
            out.push_str(&format!("sorted={:?};", t.iter().map(|x| x.to_bits()).collect::<Vec<_>>()));
        }
        1 => {
            let mut c = v.clone();
            for (k, x) in c.sorted_non_zero_iter_mut().enumerate() {
                *x *= 0.9f64.powi(k as i32 % 50) + 0.01;
            }
            c.sort_desc();
            // SAFETY: only positive rescaling of non-zero entries, zeros were removed
            let t = unsafe { c.transmute_into_vec() };
            out.push_str(&format!("rescaled={:?};", t.iter().map(|x| x.to_bits()).collect::<Vec<_>>()));
        }
        _ => {
            let mut c = v.clone();
            c.retain_non_zero();
            out.push_str(&format!("retained_iter_len={} sum={:?};", c.iter().count(), (c.sum() + 0.0).to_bits()));
        }
    }
    out
}

pub fn case(ctx: &mut Ctx, idx: u64) {
    let mut rng = Rng::for_case(ctx.seed, "C10", idx);
    // direct StrainsVec programs
    for k in 0..4 {
        let mut r2 = rng.fork();
        let r = guard(|| strains_vec_program(&mut r2));
        ctx.eval();
        match r {
            Ok(s) => {
                if ctx.verbose {
                    eprintln!("{idx}/strainsvec/{k} = {}", crate::runner::truncate(&s, 3000));
                }
                ctx.hist_line(&format!("{idx}/strainsvec/{k}"), hash_str(&s));
            }
            Err(p) => ctx.violation(&format!("C10/strainsvec-panic/{}", p.sig()), &format!("{} at {}", p.msg, p.loc), None),
        }
    }
    ctx.count_n("strainsvec_programs", 4);

    let max_objects = if ctx.thorough() { 120 } else { 50 };
    let mx = if rng.chance(0.4) {
        Mix {
            realistic: false,
            max_objects,
            profiles: Some(vec![Profile::Gaps, Profile::Gaps, Profile::Spinners, Profile::Editor]),
            fixtures: false,
            mode: None,
        }
    } else {
        Mix {
            realistic: true,
            max_objects,
            ..Mix::default()
        }
    };
    // one case in 120 (thorough: 400): a long dense map (thousands of non-zero strain sections) - anything that treats
    // long peak lists differently per feature only shows there
    let long = rng.below(if ctx.thorough() { 400 } else { 120 }) == 0;
    let generated = if long {
        let file_mode = *rng.pick(&[0u8, 0, 2, 1, 3]);
        let n = *rng.pick(&[2500usize, 6000, 8000]);
        let text = crate::osu::long_file_n(&mut rng, file_mode, n).render();
        ctx.count("class:long-dense-map");
        maps::decode(&text).map(|m| (gen::MapCase { text, tag: "long".into() }, m))
    } else if rng.below(5) == 0 {
        // mid-size maps made of phases: the look-back windows of the skills end in a different phase
        ctx.count("class:phased-map");
        gen::gen_phased(&mut rng, None)
    } else {
        gen::gen_domain_map(&mut rng, &mx, Domain::Adversarial)
    };
    let Some((mc, map)) = generated else {
        ctx.count("skipped_no_domain_map");
        return;
    };
    let text = mc.text.as_str();
    if maps::est_sections(&map, 0.5) > 1_200_000.0 {
        ctx.count("skipped_too_many_sections");
        return;
    }
    if map.hit_objects.first().is_some_and(|h| h.start_time < 0.0) {
        ctx.count("class:objects-before-time-zero");
    }
    let sec = maps::est_sections(&map, 1.0);
    if sec >= 1000.0 {
        ctx.count("class:>=1e3-sections");
    }
    if sec >= 100_000.0 {
        ctx.count("class:>=1e5-sections");
    }
    if map.hit_objects.len() >= 2 {
        ctx.nontrivial(hash_str(text));
    }
    for mode in maps::reachable_modes(&map) {
        let mname = mode_name(mode);
        let mut spec = sets::gen_setspec_wide(&mut rng, mode, &map);
        if rng.chance(0.3) {
            spec.passed = Some(rng.below(map.hit_objects.len() as u64 + 2) as u32);
        }
        let mut sc = sets::gen_scorespec(&mut rng, map.hit_objects.len() as u32 + 2);
        if long {
            // a fully specified state: the hit-result search of generate_state is cubic in the object count for mania
            // (a time budget matter, judged by C05 inside its <= 400 objects domain), not what C10 compares
            sc = sets::ScoreSpec {
                state: Some(sets::gen_state(&mut rng, map.hit_objects.len() as u32 + 1)),
                ..sets::ScoreSpec::default()
            };
        }
        let states: Vec<_> = (0..4).map(|_| sets::gen_state(&mut rng, map.hit_objects.len() as u32 + 1)).collect();
        let d = spec.to_difficulty(mode);
        let dg = spec.for_gradual().to_difficulty(mode);
        let detail = format!("mode={mname} src={} settings=[{}]", mc.tag, spec.describe());
        ctx.count(&format!("mode:{mname}"));
        let jobs: Vec<(&str, Box<dyn FnOnce() -> String + '_>)> = vec![
            ("difficulty", Box::new(|| dump(&api::calc_for_mode(&d, &map, mode)))),
            ("strains", Box::new(|| dump(&api::strains_for_mode(&d, &map, mode)))),
            (
                "performance",
                Box::new(|| match map.convert_ref(mode, &spec.mods.to_gamemods(mode)) {
                    Ok(c) => dump(&api::perf_calc(sc.apply(Performance::new(c.as_ref()).difficulty(d.clone())))),
                    Err(e) => format!("{e:?}"),
                }),
            ),
            // everything else the library answers about a map: the features promise "no result changes", not only no star rating
            (
                "map_api",
                Box::new(|| {
                    format!(
                        "suspicion={:?}|bpm={:?}|breaks={:?}|attributes={}|windows={:?}",
                        map.check_suspicion(),
                        map.bpm(),
                        map.total_break_time(),
                        dump(&map.attributes().difficulty(&d).build()),
                        map.attributes().difficulty(&d).hit_windows()
                    )
                }),
            ),
            (
                "convert",
                Box::new(|| match map.convert_ref(mode, &spec.mods.to_gamemods(mode)) {
                    Ok(c) => format!("{:?}", c.as_ref()),
                    Err(e) => format!("{e:?}"),
                }),
            ),
            (
                "gradual_difficulty",
                Box::new(|| match api::gradual(dg.clone(), &map, mode) {
                    Err(e) => format!("{e:?}"),
                    Ok(mut g) => {
                        let mut out = Vec::new();
                        for _ in 0..5 {
                            out.push(dump(&api::g_next(&mut g)));
                        }
                        for _ in 0..8 {
                            out.push(dump(&api::g_nth(&mut g, 5)));
                        }
                        out.push(dump(&g.last()));
                        out.join("|")
                    }
                }),
            ),
            (
                "gradual_performance",
                Box::new(|| match api::gradual_perf(dg.clone(), &map, mode) {
                    Err(e) => format!("{e:?}"),
                    Ok(mut g) => states
                        .iter()
                        .enumerate()
                        .map(|(k, s)| dump(&api::gp_nth(&mut g, s.clone(), k * 2)))
                        .collect::<Vec<_>>()
                        .join("|"),
                }),
            ),
        ];
        for (name, f) in jobs {
            ctx.eval();
            match guard(f) {
                Ok(s) => {
                    // the property promises numerically equal results: -0.0 and 0.0 are the same number
                    let s = maps::normalize_neg_zero(&s);
                    if ctx.verbose {
                        eprintln!("{idx}/{mname}/{name} = {}", crate::runner::truncate(&s, 3000));
                    }
                    ctx.hist_line(&format!("{idx}/{mname}/{name}"), hash_str(&s));
                }
                Err(p) => {
                    ctx.hist_line(&format!("{idx}/{mname}/{name}"), hash_str(&p.sig()));
                    ctx.violation(&format!("C10/{name}-panic/{}", p.sig()), &format!("{} at {} | {detail}", p.msg, p.loc), Some(text));
                }
            }
        }
    }
    ctx.sample(|| format!("src={} objects={} est_sections={sec:.0}", mc.tag, map.hit_objects.len()));
}
