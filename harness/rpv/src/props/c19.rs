//! C19 — converted maps are well-formed inputs of their target mode.

use rosu_pp::{
    model::{hit_object::HitObjectKind, mode::GameMode},
    Beatmap,
};

use crate::{
    api,
    gen::{self, Mix},
    maps::{dump, mode_name, Domain},
    rng::{hash_str, Rng},
    runner::{guard, Ctx},
    sets::{ModSpec, Repr, KEY_MODS},
};

pub fn strictly_increasing(times: impl Iterator<Item = f64>) -> Option<(usize, f64, f64)> {
    let mut prev: Option<f64> = None;
    for (i, t) in times.enumerate() {
        if let Some(p) = prev {
            if !(p < t) {
                return Some((i, p, t));
            }
        }
        prev = Some(t);
    }
    None
}

pub fn control_points_strict(map: &Beatmap) -> Option<String> {
    if let Some((i, a, b)) = strictly_increasing(map.timing_points.iter().map(|p| p.time)) {
        return Some(format!("timing_points[{}..={i}] times {a:?}, {b:?}", i - 1));
    }
    if let Some((i, a, b)) = strictly_increasing(map.difficulty_points.iter().map(|p| p.time)) {
        return Some(format!("difficulty_points[{}..={i}] times {a:?}, {b:?}", i - 1));
    }
    if let Some((i, a, b)) = strictly_increasing(map.effect_points.iter().map(|p| p.time)) {
        return Some(format!("effect_points[{}..={i}] times {a:?}, {b:?}", i - 1));
    }
    None
}

pub fn objects_sorted(map: &Beatmap) -> Option<String> {
    for (i, w) in map.hit_objects.windows(2).enumerate() {
        if !(w[0].start_time <= w[1].start_time) {
            return Some(format!("hit_objects[{i}].start_time={:?} > hit_objects[{}].start_time={:?}", w[0].start_time, i + 1, w[1].start_time));
        }
    }
    None
}

pub fn durations_ok(map: &Beatmap) -> Option<String> {
    for (i, h) in map.hit_objects.iter().enumerate() {
        let d = match &h.kind {
            HitObjectKind::Spinner(s) => Some(s.duration),
            HitObjectKind::Hold(s) => Some(s.duration),
            _ => None,
        };
        if let Some(d) = d {
            if !d.is_finite() || d < 0.0 {
                return Some(format!("hit_objects[{i}] duration {d:?}"));
            }
        }
        if !h.start_time.is_finite() {
            return Some(format!("hit_objects[{i}] start_time {:?}", h.start_time));
        }
    }
    None
}

pub fn case(ctx: &mut Ctx, idx: u64) {
    let mut rng = Rng::for_case(ctx.seed, "C19", idx);
    let max_objects = if ctx.thorough() { 150 } else { 60 };
    let mx = Mix {
        realistic: rng.chance(0.5),
        max_objects,
        mode: Some(0),
        ..Mix::default()
    };
    // one case in 300: a map with a slider lasting for weeks (duration around i32::MAX ms); only conversions are run here, so
    // the nested-object bound of the calculation domain does not apply
    let generated = if rng.below(300) == 0 {
        ctx.count("class:giant-slider");
        let text = crate::osu::giant_slider_file(&mut rng).render();
        crate::maps::decode(&text).map(|m| (gen::MapCase { text, tag: "giant-slider".into() }, m))
    } else {
        gen::gen_domain_map(&mut rng, &mx, Domain::Adversarial)
    };
    let Some((mc, map)) = generated else {
        ctx.count("skipped_no_domain_map");
        return;
    };
    if map.mode != GameMode::Osu {
        ctx.count("skipped_not_osu");
        return;
    }
    let text = mc.text.as_str();
    ctx.count(if map.version < 8 { "class:version<8" } else { "class:version>=8" });
    if map.hit_objects.iter().any(|h| h.is_slider()) {
        ctx.count("class:has-sliders");
    }
    let source_strict = control_points_strict(&map).is_none();
    if !source_strict {
        ctx.count("class:source-control-points-not-strict");
    }
    if map.hit_objects.len() >= 2 {
        ctx.nontrivial(hash_str(text));
    }

    // key settings: none + each key mod (legacy bits) + 10K via lazer/intermode
    let mut targets: Vec<(GameMode, ModSpec, Option<u32>)> = vec![
        (GameMode::Taiko, ModSpec::default(), None),
        (GameMode::Catch, ModSpec::default(), None),
        (GameMode::Mania, ModSpec::default(), None),
    ];
    let n_keys = if ctx.thorough() { 10 } else { 3 };
    let mut keys: Vec<u32> = (1..=10).collect();
    rng.shuffle(&mut keys);
    for &k in keys.iter().take(n_keys) {
        // the key mod alone, or together with mods that have nothing to do with the key count
        let other = *rng.pick(&[0u32, 0, 0, 8, 16, 2, 64, 8 | 64]);
        let spec = if k == 10 {
            // 10K has no legacy bit: lazer mods, or the same set as intermode mods (owned / borrowed)
            ModSpec {
                bits: other,
                repr: *rng.pick(&[Repr::Lazer, Repr::LazerAsIntermode, Repr::LazerAsIntermodeRef]),
                extra: crate::sets::LazerExtra {
                    ten_keys: true,
                    ..Default::default()
                },
            }
        } else {
            let bit = KEY_MODS[(k - 1) as usize];
            ModSpec {
                bits: bit | other,
                repr: *rng.pick(&[
                    Repr::U32,
                    Repr::Legacy,
                    Repr::Intermode,
                    Repr::IntermodeRef,
                    Repr::Lazer,
                    Repr::LazerAsIntermode,
                    Repr::LazerAsIntermodeRef,
                ]),
                extra: Default::default(),
            }
        };
        targets.push((GameMode::Mania, spec, Some(k)));
    }

    for (target, spec, keys) in targets {
        let tname = mode_name(target);
        let gm = spec.to_gamemods(target);
        let conv = match guard(|| api::convert(&map, target, &gm)) {
            Ok(Ok(c)) => c,
            Ok(Err(e)) => {
                ctx.violation(&format!("C19/{tname}/convert-error"), &format!("{e:?} for an unconverted osu! map"), Some(text));
                continue;
            }
            Err(p) => {
                ctx.violation(&format!("C19/{tname}/convert-panic/{}", p.sig()), &format!("{} at {} mods={}", p.msg, p.loc, spec.describe()), Some(text));
                continue;
            }
        };
        ctx.eval();
        ctx.count(&format!("target:{tname}"));
        let ctxs = format!("target={tname} mods={} src={} objects={}->{}", spec.describe(), mc.tag, map.hit_objects.len(), conv.hit_objects.len());
        if let Some(w) = objects_sorted(&conv) {
            ctx.violation(&format!("C19/{tname}/objects-unsorted"), &format!("{w} | {ctxs}"), Some(text));
        }
        if let Some(w) = durations_ok(&conv) {
            ctx.violation(&format!("C19/{tname}/duration"), &format!("{w} | {ctxs}"), Some(text));
        }
        if source_strict {
            if let Some(w) = control_points_strict(&conv) {
                ctx.violation(&format!("C19/{tname}/control-points-not-strict"), &format!("{w} | {ctxs}"), Some(text));
            }
        }
        match target {
            GameMode::Taiko => {
                if conv.hit_sounds.len() != conv.hit_objects.len() {
                    ctx.violation(
                        &format!("C19/taiko/sounds-vs-objects"),
                        &format!("{} hit sounds for {} objects | {ctxs}", conv.hit_sounds.len(), conv.hit_objects.len()),
                        Some(text),
                    );
                }
                if conv.hit_objects.iter().any(|h| h.is_slider()) {
                    ctx.count("class:taiko-keeps-drumroll");
                }
                if conv.hit_objects.len() > map.hit_objects.len() {
                    ctx.count("class:taiko-slider-split-into-hits");
                }
            }
            GameMode::Mania => {
                let k = conv.cs;
                let k_ok = match keys {
                    Some(want) => k == want as f32,
                    None => k.fract() == 0.0 && (4.0..=7.0).contains(&k),
                };
                if !k_ok {
                    ctx.violation(
                        &format!("C19/mania/key-count"),
                        &format!("key count (cs) = {k} with key mod {keys:?} | {ctxs}"),
                        Some(text),
                    );
                } else {
                    let div = 512.0 / k;
                    for (i, h) in conv.hit_objects.iter().enumerate() {
                        let col = (h.pos.x / div).floor();
                        if !(h.pos.x >= 0.0) || !(col <= k - 1.0) {
                            ctx.violation(
                                &format!("C19/mania/column-out-of-range"),
                                &format!("hit_objects[{i}].pos.x = {} => column {col} with {k} keys | {ctxs}", h.pos.x),
                                Some(text),
                            );
                            break;
                        }
                    }
                }
                if keys.is_some() {
                    ctx.count("class:mania-key-mod");
                }
            }
            GameMode::Catch => {
                let mut back = conv.clone();
                back.mode = map.mode;
                back.is_convert = map.is_convert;
                if dump(&back) != dump(&map) {
                    ctx.violation(&format!("C19/catch/changed-fields"), &format!("catch conversion changed more than mode/is_convert | {ctxs}"), Some(text));
                }
            }
            GameMode::Osu => {}
        }
        if conv.mode != target || !conv.is_convert {
            ctx.violation(&format!("C19/{tname}/flags"), &format!("mode={:?} is_convert={} | {ctxs}", conv.mode, conv.is_convert), Some(text));
        }
        ctx.sample(|| ctxs.clone());
    }
}
