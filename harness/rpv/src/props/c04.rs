//! C04 — reusing computed attributes gives the same performance as using the map.

use rosu_pp::{
    any::{DifficultyAttributes, PerformanceAttributes},
    catch::CatchPerformance,
    mania::ManiaPerformance,
    model::mode::GameMode,
    osu::OsuPerformance,
    taiko::TaikoPerformance,
    Beatmap, Performance,
};

use crate::{
    api,
    gen::{self, Mix},
    maps::{dump, mode_name, unit_count, Domain},
    props::{c03, diff_fields, perf_diff_fields, sig_fields},
    rng::{hash_str, Rng},
    runner::{guard, Ctx},
    sets::{self, ScoreSpec, SetSpec},
};

type Builder<'a> = Box<dyn FnOnce() -> Option<Performance<'a>> + 'a>;

#[allow(clippy::too_many_lines)]
fn entry_points<'a>(
    map: &'a Beatmap,
    conv: &'a Beatmap,
    mode: GameMode,
    attrs: &DifficultyAttributes,
    pattrs: &PerformanceAttributes,
    d: &rosu_pp::Difficulty,
    sc: &ScoreSpec,
) -> Vec<(&'static str, Builder<'a>)> {
    let mut v: Vec<(&'static str, Builder<'a>)> = Vec::new();
    // from the map (the map of the calculation mode: converted explicitly where needed)
    v.push(("Performance::new(&conv)", Box::new(move || Some(Performance::new(conv)))));
    v.push(("Performance::new(conv.clone())", Box::new(move || Some(Performance::new(conv.clone())))));
    v.push(("conv.performance()", Box::new(move || Some(conv.performance()))));
    v.push(("Performance::from(&conv)", Box::new(move || Some(Performance::from(conv)))));
    v.push(("ModePerformance::new(&map)", Box::new(move || Some(c03::mode_perf(map, mode)))));
    v.push((
        "ModePerformance::new(map.clone())",
        Box::new(move || {
            Some(match mode {
                GameMode::Osu => Performance::Osu(OsuPerformance::new(map.clone())),
                GameMode::Taiko => Performance::Taiko(TaikoPerformance::new(map.clone())),
                GameMode::Catch => Performance::Catch(CatchPerformance::new(map.clone())),
                GameMode::Mania => Performance::Mania(ManiaPerformance::new(map.clone())),
            })
        }),
    ));
    v.push((
        "ModePerformance::try_new(&conv)",
        Box::new(move || match mode {
            GameMode::Osu => OsuPerformance::try_new(conv).map(Performance::Osu),
            GameMode::Taiko => TaikoPerformance::try_new(conv).map(Performance::Taiko),
            GameMode::Catch => CatchPerformance::try_new(conv).map(Performance::Catch),
            GameMode::Mania => ManiaPerformance::try_new(conv).map(Performance::Mania),
        }),
    ));
    // conversion through the builder happens with the mods known at that time, so the settings
    // are supplied first (they are supplied again afterwards like for every other entry point)
    let dd = d.clone();
    v.push((
        "Performance::new(&map).difficulty(d).try_mode(mode)",
        Box::new(move || Performance::new(map).difficulty(dd).try_mode(mode).ok()),
    ));
    let dd = d.clone();
    v.push((
        "Performance::new(map.clone()).difficulty(d).mode_or_ignore(mode)",
        Box::new(move || Some(Performance::new(map.clone()).difficulty(dd).mode_or_ignore(mode))),
    ));
    // ... and with the score specification given while the builder still is the osu! one: it has to survive the switch
    let (dd, s2) = (d.clone(), sc.clone());
    v.push((
        "Performance::new(&map).difficulty(d).<score>.try_mode(mode)",
        Box::new(move || s2.apply(Performance::new(map).difficulty(dd)).try_mode(mode).ok()),
    ));
    let (dd, s2) = (d.clone(), sc.clone());
    v.push((
        "Performance::new(&map).difficulty(d).<score>.mode_or_ignore(mode)",
        Box::new(move || Some(s2.apply(Performance::new(map).difficulty(dd)).mode_or_ignore(mode))),
    ));
    // from attributes
    let a = attrs.clone();
    v.push(("Performance::new(attrs)", Box::new(move || Some(Performance::new(a)))));
    let a = attrs.clone();
    v.push(("attrs.performance()", Box::new(move || Some(a.performance()))));
    let a = attrs.clone();
    v.push(("Performance::from(attrs)", Box::new(move || Some(Performance::from(a)))));
    let pa = pattrs.clone();
    v.push(("Performance::new(perf_attrs)", Box::new(move || Some(Performance::new(pa)))));
    let pa = pattrs.clone();
    v.push(("perf_attrs.performance()", Box::new(move || Some(pa.performance()))));
    let a = attrs.clone();
    v.push((
        "ModeAttrs.performance()",
        Box::new(move || {
            Some(match a {
                DifficultyAttributes::Osu(a) => Performance::Osu(a.performance()),
                DifficultyAttributes::Taiko(a) => Performance::Taiko(a.performance()),
                DifficultyAttributes::Catch(a) => Performance::Catch(a.performance()),
                DifficultyAttributes::Mania(a) => Performance::Mania(a.performance()),
            })
        }),
    ));
    let pa = pattrs.clone();
    v.push((
        "ModePerfAttrs.performance()",
        Box::new(move || {
            Some(match pa {
                PerformanceAttributes::Osu(a) => Performance::Osu(a.performance()),
                PerformanceAttributes::Taiko(a) => Performance::Taiko(a.performance()),
                PerformanceAttributes::Catch(a) => Performance::Catch(a.performance()),
                PerformanceAttributes::Mania(a) => Performance::Mania(a.performance()),
            })
        }),
    ));
    let a = attrs.clone();
    v.push((
        "ModePerformance::new(ModeAttrs)",
        Box::new(move || {
            Some(match a {
                DifficultyAttributes::Osu(a) => Performance::Osu(OsuPerformance::new(a)),
                DifficultyAttributes::Taiko(a) => Performance::Taiko(TaikoPerformance::new(a)),
                DifficultyAttributes::Catch(a) => Performance::Catch(CatchPerformance::new(a)),
                DifficultyAttributes::Mania(a) => Performance::Mania(ManiaPerformance::new(a)),
            })
        }),
    ));
    let pa = pattrs.clone();
    v.push((
        "ModePerformance::from(ModePerfAttrs)",
        Box::new(move || {
            Some(match pa {
                PerformanceAttributes::Osu(a) => Performance::Osu(OsuPerformance::from(a)),
                PerformanceAttributes::Taiko(a) => Performance::Taiko(TaikoPerformance::from(a)),
                PerformanceAttributes::Catch(a) => Performance::Catch(CatchPerformance::from(a)),
                PerformanceAttributes::Mania(a) => Performance::Mania(ManiaPerformance::from(a)),
            })
        }),
    ));
    let a = attrs.clone();
    v.push((
        "ModePerformance::try_new(attrs)",
        Box::new(move || match mode {
            GameMode::Osu => OsuPerformance::try_new(a).map(Performance::Osu),
            GameMode::Taiko => TaikoPerformance::try_new(a).map(Performance::Taiko),
            GameMode::Catch => CatchPerformance::try_new(a).map(Performance::Catch),
            GameMode::Mania => ManiaPerformance::try_new(a).map(Performance::Mania),
        }),
    ));
    v
}

/// Supply the settings through the performance builder's own setters instead of a `Difficulty`.
pub fn apply_setters<'a>(mut p: Performance<'a>, spec: &SetSpec, mode: GameMode) -> Performance<'a> {
    p = p.mods(spec.mods.to_gamemods(mode));
    if let Some(c) = spec.clock {
        p = p.clock_rate(c);
    }
    if let Some((v, f)) = spec.ar {
        p = p.ar(v, f);
    }
    if let Some((v, f)) = spec.cs {
        p = p.cs(v, f);
    }
    if let Some((v, f)) = spec.od {
        p = p.od(v, f);
    }
    // hp last on purpose: a later od() would mask a mix-up between the two
    if let Some((v, f)) = spec.hp {
        p = p.hp(v, f);
    }
    if let Some(n) = spec.passed {
        p = p.passed_objects(n);
    }
    if let Some(h) = spec.hro {
        p = p.hardrock_offsets(h);
    }
    if let Some(l) = spec.lazer {
        p = p.lazer(l);
    }
    p
}

pub fn gen_inputs(ctx: &Ctx, rng: &mut Rng, tag: &str) -> Option<(gen::MapCase, Beatmap, GameMode, SetSpec, ScoreSpec)> {
    let _ = tag;
    let max_objects = if ctx.thorough() { 120 } else { 50 };
    let mx = Mix {
        realistic: true,
        max_objects,
        ..Mix::default()
    };
    // one case in 40: a map that check_suspicion() rejects but that is cheap to calculate ("for all maps")
    let (mc, map) = if rng.below(40) == 0 {
        let file_mode = *rng.pick(&[0u8, 0, 1, 2, 3]);
        let text = crate::osu::suspicious_cheap_file(rng, file_mode).render();
        let map = crate::maps::decode(&text)?;
        (gen::MapCase { text, tag: "suspicious-cheap".into() }, map)
    } else {
        gen::gen_domain_map(rng, &mx, Domain::Realistic)?
    };
    let mode = gen::pick_mode(rng, &map);
    let mut spec = sets::gen_setspec_wide(rng, mode, &map);
    let n = map.hit_objects.len() as u32;
    if rng.chance(0.5) {
        spec.passed = Some(match rng.below(6) {
            0 => 0,
            1 => 1,
            2 => n,
            3 => n + 1,
            4 => u32::MAX,
            _ => rng.below(u64::from(n) * 2 + 2) as u32,
        });
    }
    let sc = sets::gen_scorespec(rng, n.max(1) * 2);
    Some((mc, map, mode, spec, sc))
}

pub fn case(ctx: &mut Ctx, idx: u64) {
    let mut rng = Rng::for_case(ctx.seed, "C04", idx);
    let Some((mc, map, mode, spec, sc)) = gen_inputs(ctx, &mut rng, "C04") else {
        ctx.count("skipped_no_domain_map");
        return;
    };
    let mname = mode_name(mode);
    if mc.tag == "suspicious-cheap" {
        ctx.count("class:map-rejected-by-check_suspicion");
    }
    let d = spec.to_difficulty(mode);
    let mods = spec.mods.to_gamemods(mode);
    let conv = match guard(|| api::convert(&map, mode, &mods)) {
        Ok(Ok(c)) => c,
        _ => {
            ctx.count("skipped_convert_error");
            return;
        }
    };
    // one-shot difficulty A
    let a = match guard(|| api::calc_for_mode(&d, &map, mode)) {
        Ok(Ok(a)) => a,
        Ok(Err(_)) => {
            ctx.count("skipped_convert_error");
            return;
        }
        Err(p) => {
            ctx.violation(
                &format!("C04/{mname}/reference-panic/{}", p.sig()),
                &format!("difficulty panicked: {} at {} | {}", p.msg, p.loc, spec.describe()),
                Some(&mc.text),
            );
            return;
        }
    };
    ctx.count(&format!("mode:{mname}"));
    if map.mode != mode {
        ctx.count("class:convert");
    }
    if spec.passed.is_some() {
        ctx.count("class:passed_objects");
    }
    // reference result: from the explicitly converted map
    let reference = match guard(|| api::perf_calc(sc.apply(Performance::new(&conv).difficulty(d.clone())))) {
        Ok(r) => r,
        Err(p) => {
            ctx.violation(
                &format!("C04/{mname}/reference-panic/{}", p.sig()),
                &format!(
                    "performance from the map panicked: {} at {} | settings=[{}] score={}",
                    p.msg,
                    p.loc,
                    spec.describe(),
                    sc.describe()
                ),
                Some(&mc.text),
            );
            return;
        }
    };
    let ref_dump = dump(&reference);
    if unit_count(&a) >= 2 {
        ctx.nontrivial(hash_str(&mc.text) ^ hash_str(&spec.describe()) ^ hash_str(&sc.describe()));
    }

    // embedded difficulty attributes == one-shot difficulty
    ctx.eval();
    let emb = reference.difficulty_attributes();
    if dump(&emb) != dump(&a) {
        let f = diff_fields(&emb, &a);
        ctx.violation(
            &format!("C04/{mname}/embedded-difficulty/{}", sig_fields(&f)),
            &format!(
                "result.difficulty_attributes() != Difficulty::calculate; fields={f:?} settings=[{}]\n embedded: {}\n one-shot: {}",
                spec.describe(),
                dump(&emb),
                dump(&a)
            ),
            Some(&mc.text),
        );
    }

    for (name, build) in entry_points(&map, &conv, mode, &a, &reference, &d, &sc) {
        let dd = d.clone();
        let scc = sc.clone();
        // entry points that were given the score specification before the mode switch are not given it again (that would
        // repair whatever the switch lost) - unless it contains values an osu! builder cannot hold (katu / geki / a state)
        let reapply = !(name.contains("<score>") && sc.state.is_none() && sc.n_katu.is_none() && sc.n_geki.is_none());
        let r = guard(move || {
            build().map(|p| {
                let p = p.difficulty(dd);
                api::perf_calc(if reapply { scc.apply(p) } else { p })
            })
        });
        ctx.eval();
        ctx.count(&format!("entry:{name}"));
        match r {
            Ok(Some(res)) => {
                if dump(&res) != ref_dump {
                    let f = perf_diff_fields(&res, &reference);
                    ctx.violation(
                        &format!("C04/{mname}/entry/{name}/{}", sig_fields(&f)),
                        &format!(
                            "entry point {name} differs from Performance::new(&converted_map); fields={f:?}\n settings=[{}] score={}\n entry    : {}\n reference: {}",
                            spec.describe(),
                            sc.describe(),
                            dump(&res),
                            ref_dump
                        ),
                        Some(&mc.text),
                    );
                }
            }
            Ok(None) => {
                ctx.violation(
                    &format!("C04/{mname}/entry/{name}/unavailable"),
                    &format!("entry point {name} refused a {mname} input (try_new/try_mode returned None/Err)"),
                    Some(&mc.text),
                );
            }
            Err(p) => {
                ctx.violation(
                    &format!("C04/{mname}/entry/{name}/{}", p.sig()),
                    &format!("entry point {name} panicked: {} at {} | settings=[{}] score={}", p.msg, p.loc, spec.describe(), sc.describe()),
                    Some(&mc.text),
                );
            }
        }
    }
    // ---- the same settings supplied through the builder's own setters (map path vs attribute path vs one-shot)
    {
        // settings that the enum-level setters document as irrelevant for the mode are not part of `d` here
        let mut sspec = spec.clone();
        if matches!(mode, GameMode::Taiko | GameMode::Mania) {
            sspec.ar = None;
            sspec.cs = None;
        }
        if mode != GameMode::Catch {
            sspec.hro = None;
        }
        if matches!(mode, GameMode::Taiko | GameMode::Catch) {
            sspec.lazer = None;
        }
        let ds = sspec.to_difficulty(mode);
        let one_shot = guard(|| api::calc(&ds, &conv));
        let from_map = guard(|| api::perf_calc(sc.apply(apply_setters(Performance::new(&conv), &sspec, mode))));
        let a2 = one_shot.clone();
        let from_attrs = guard(|| a2.map(|a| api::perf_calc(sc.apply(apply_setters(Performance::new(a), &sspec, mode)))));
        ctx.eval();
        ctx.count("setter-path-comparisons");
        if let (Ok(a), Ok(m), Ok(Ok(t))) = (one_shot, from_map, from_attrs) {
            let emb = m.difficulty_attributes();
            if dump(&emb) != dump(&a) {
                let f = diff_fields(&emb, &a);
                ctx.violation(
                    &format!("C04/{mname}/setters/embedded-difficulty/{}", sig_fields(&f)),
                    &format!(
                        "settings supplied through Performance setters: embedded difficulty attributes differ from Difficulty::calculate with the same settings; fields={f:?} settings=[{}]\n embedded: {}\n one-shot: {}",
                        sspec.describe(),
                        dump(&emb),
                        dump(&a)
                    ),
                    Some(&mc.text),
                );
            } else if dump(&m) != dump(&t) {
                let f = perf_diff_fields(&m, &t);
                ctx.violation(
                    &format!("C04/{mname}/setters/map-vs-attrs/{}", sig_fields(&f)),
                    &format!(
                        "settings supplied through Performance setters: result from the map differs from the result from its attributes; fields={f:?} settings=[{}] score={}\n map  : {}\n attrs: {}",
                        sspec.describe(),
                        sc.describe(),
                        dump(&m),
                        dump(&t)
                    ),
                    Some(&mc.text),
                );
            }
        }
    }
    ctx.sample(|| format!("mode={mname} src={} settings=[{}] score={}", mc.tag, spec.describe(), sc.describe()));
}
