//! C18 — builder settings mean the same thing wherever they are set.

use rosu_pp::{
    any::HitResultPriority,
    catch::CatchPerformance,
    mania::ManiaPerformance,
    model::mode::GameMode,
    osu::OsuPerformance,
    taiko::TaikoPerformance,
    Beatmap, Difficulty, Performance,
};

use crate::{
    api,
    gen::{self, Mix},
    maps::{dump, mode_name, Domain},
    rng::{hash_str, Rng},
    runner::{guard, truncate, Ctx},
    sets::{self, ModSpec},
};

#[derive(Clone, Debug)]
pub enum Setter {
    Mods(ModSpec),
    Passed(u32),
    Clock(f64),
    Ar(f32, bool),
    Cs(f32, bool),
    Hp(f32, bool),
    Od(f32, bool),
    Hro(bool),
    Lazer(bool),
}

impl Setter {
    fn field(&self) -> u8 {
        match self {
            Setter::Mods(_) => 0,
            Setter::Passed(_) => 1,
            Setter::Clock(_) => 2,
            Setter::Ar(..) => 3,
            Setter::Cs(..) => 4,
            Setter::Hp(..) => 5,
            Setter::Od(..) => 6,
            Setter::Hro(_) => 7,
            Setter::Lazer(_) => 8,
        }
    }

    fn on_difficulty(&self, d: Difficulty, mode: GameMode) -> Difficulty {
        match self {
            Setter::Mods(m) => d.mods(m.to_gamemods(mode)),
            Setter::Passed(n) => d.passed_objects(*n),
            Setter::Clock(c) => d.clock_rate(*c),
            Setter::Ar(v, f) => d.ar(*v, *f),
            Setter::Cs(v, f) => d.cs(*v, *f),
            Setter::Hp(v, f) => d.hp(*v, *f),
            Setter::Od(v, f) => d.od(*v, *f),
            Setter::Hro(h) => d.hardrock_offsets(*h),
            Setter::Lazer(l) => d.lazer(*l),
        }
    }

    fn on_performance<'a>(&self, p: Performance<'a>, mode: GameMode) -> Performance<'a> {
        match self {
            Setter::Mods(m) => p.mods(m.to_gamemods(mode)),
            Setter::Passed(n) => p.passed_objects(*n),
            Setter::Clock(c) => p.clock_rate(*c),
            Setter::Ar(v, f) => p.ar(*v, *f),
            Setter::Cs(v, f) => p.cs(*v, *f),
            Setter::Hp(v, f) => p.hp(*v, *f),
            Setter::Od(v, f) => p.od(*v, *f),
            Setter::Hro(h) => p.hardrock_offsets(*h),
            Setter::Lazer(l) => p.lazer(*l),
        }
    }

    /// Through the mode-specific builder (setters that do not exist there are skipped and reported).
    fn on_mode_performance<'a>(&self, p: Performance<'a>, mode: GameMode) -> (Performance<'a>, bool) {
        match p {
            Performance::Osu(o) => match self {
                Setter::Mods(m) => (Performance::Osu(o.mods(m.to_gamemods(mode))), true),
                Setter::Passed(n) => (Performance::Osu(o.passed_objects(*n)), true),
                Setter::Clock(c) => (Performance::Osu(o.clock_rate(*c)), true),
                Setter::Ar(v, f) => (Performance::Osu(o.ar(*v, *f)), true),
                Setter::Cs(v, f) => (Performance::Osu(o.cs(*v, *f)), true),
                Setter::Hp(v, f) => (Performance::Osu(o.hp(*v, *f)), true),
                Setter::Od(v, f) => (Performance::Osu(o.od(*v, *f)), true),
                Setter::Lazer(l) => (Performance::Osu(o.lazer(*l)), true),
                Setter::Hro(_) => (Performance::Osu(o), false),
            },
            Performance::Taiko(o) => match self {
                Setter::Mods(m) => (Performance::Taiko(o.mods(m.to_gamemods(mode))), true),
                Setter::Passed(n) => (Performance::Taiko(o.passed_objects(*n)), true),
                Setter::Clock(c) => (Performance::Taiko(o.clock_rate(*c)), true),
                Setter::Hp(v, f) => (Performance::Taiko(o.hp(*v, *f)), true),
                Setter::Od(v, f) => (Performance::Taiko(o.od(*v, *f)), true),
                _ => (Performance::Taiko(o), false),
            },
            Performance::Catch(o) => match self {
                Setter::Mods(m) => (Performance::Catch(o.mods(m.to_gamemods(mode))), true),
                Setter::Passed(n) => (Performance::Catch(o.passed_objects(*n)), true),
                Setter::Clock(c) => (Performance::Catch(o.clock_rate(*c)), true),
                Setter::Ar(v, f) => (Performance::Catch(o.ar(*v, *f)), true),
                Setter::Cs(v, f) => (Performance::Catch(o.cs(*v, *f)), true),
                Setter::Hp(v, f) => (Performance::Catch(o.hp(*v, *f)), true),
                Setter::Od(v, f) => (Performance::Catch(o.od(*v, *f)), true),
                Setter::Hro(h) => (Performance::Catch(o.hardrock_offsets(*h)), true),
                Setter::Lazer(_) => (Performance::Catch(o), false),
            },
            Performance::Mania(o) => match self {
                Setter::Mods(m) => (Performance::Mania(o.mods(m.to_gamemods(mode))), true),
                Setter::Passed(n) => (Performance::Mania(o.passed_objects(*n)), true),
                Setter::Clock(c) => (Performance::Mania(o.clock_rate(*c)), true),
                Setter::Hp(v, f) => (Performance::Mania(o.hp(*v, *f)), true),
                Setter::Od(v, f) => (Performance::Mania(o.od(*v, *f)), true),
                Setter::Lazer(l) => (Performance::Mania(o.lazer(*l)), true),
                _ => (Performance::Mania(o), false),
            },
        }
    }
}

fn gen_value(rng: &mut Rng) -> f32 {
    match rng.below(8) {
        0 => *rng.pick(&[-20.0f32, 20.0, -25.0, 25.0, 1e9, -1e9, f32::INFINITY, f32::NEG_INFINITY, 0.0, 10.0, 11.0]),
        1 => (rng.range(-250, 250) as f32) / 10.0,
        _ => (rng.range(0, 110) as f32) / 10.0,
    }
}

fn gen_clock(rng: &mut Rng) -> f64 {
    match rng.below(8) {
        0 => *rng.pick(&[0.01, 100.0, 0.001, 1000.0, 0.0, -1.0, f64::INFINITY, f64::NEG_INFINITY, 1e-300]),
        1 => 10f64.powf(rng.frange(-2.0, 2.0)),
        _ => *rng.pick(&[0.5, 0.75, 1.0, 1.25, 1.5, 2.0, 1.3]),
    }
}

pub fn gen_program(rng: &mut Rng, mode: GameMode, n_obj: u32) -> Vec<Setter> {
    let len = 1 + rng.usize_below(8);
    (0..len)
        .map(|_| match rng.below(9) {
            0 => Setter::Mods(sets::gen_mods(rng, mode)),
            1 => Setter::Passed(match rng.below(4) {
                0 => 0,
                1 => n_obj,
                2 => u32::MAX,
                _ => rng.below(u64::from(n_obj) + 2) as u32,
            }),
            2 => Setter::Clock(gen_clock(rng)),
            3 => Setter::Ar(gen_value(rng), rng.chance(0.5)),
            4 => Setter::Cs(gen_value(rng), rng.chance(0.5)),
            5 => Setter::Hp(gen_value(rng), rng.chance(0.5)),
            6 => Setter::Od(gen_value(rng), rng.chance(0.5)),
            7 => Setter::Hro(rng.chance(0.5)),
            _ => Setter::Lazer(rng.chance(0.5)),
        })
        .collect()
}

fn apply_d(prog: &[Setter], mode: GameMode) -> Difficulty {
    prog.iter().fold(Difficulty::new(), |d, s| s.on_difficulty(d, mode))
}

fn mode_perf_of<'a>(map: &'a Beatmap, mode: GameMode) -> Performance<'a> {
    match mode {
        GameMode::Osu => Performance::Osu(OsuPerformance::new(map)),
        GameMode::Taiko => Performance::Taiko(TaikoPerformance::new(map)),
        GameMode::Catch => Performance::Catch(CatchPerformance::new(map)),
        GameMode::Mania => Performance::Mania(ManiaPerformance::new(map)),
    }
}

fn clamp_heavy(map: &Beatmap, prog: &[Setter]) -> bool {
    // clock rates far below 1 on long maps are legitimately expensive; keep the monitor bounded
    let c = prog.iter().rev().find_map(|s| if let Setter::Clock(c) = s { Some(*c) } else { None });
    if let Some(c) = c {
        let c = if c.is_nan() { 1.0 } else { c.clamp(0.01, 100.0) };
        return crate::maps::est_sections(map, c) > 100_000.0;
    }
    false
}

#[allow(clippy::too_many_lines)]
pub fn case(ctx: &mut Ctx, idx: u64) {
    let mut rng = Rng::for_case(ctx.seed, "C18", idx);
    let max_objects = if ctx.thorough() { 60 } else { 25 };
    let mx = Mix {
        realistic: true,
        max_objects,
        ..Mix::default()
    };
    let Some((mc, map)) = gen::gen_domain_map(&mut rng, &mx, Domain::Realistic) else {
        ctx.count("skipped_no_domain_map");
        return;
    };
    let mode = gen::pick_mode(&mut rng, &map);
    let mname = mode_name(mode);
    let text = mc.text.as_str();
    let n_obj = map.hit_objects.len() as u32;
    let prog = gen_program(&mut rng, mode, n_obj);
    if clamp_heavy(&map, &prog) {
        ctx.count("skipped_too_many_sections");
        return;
    }
    let sc = sets::gen_scorespec(&mut rng, n_obj + 2);
    let Ok(Ok(conv)) = guard(|| api::convert(&map, mode, &0u32.into())) else {
        ctx.count("skipped_convert_error");
        return;
    };
    // the calculation mode's own map; key mods etc. only matter for conversion which is C07's business
    let conv = if mode == GameMode::Mania && map.mode != GameMode::Mania {
        // mania converts depend on the mods at conversion time: use a native-mode view instead
        conv
    } else {
        conv
    };
    ctx.count(&format!("mode:{mname}"));
    let ctxs = format!("mode={mname} src={} program={prog:?} score={}", mc.tag, sc.describe());
    if conv.hit_objects.len() >= 2 {
        ctx.nontrivial(hash_str(text) ^ hash_str(&format!("{prog:?}")) ^ (mode as u64));
    }

    // ---- B1: Performance setters == Difficulty setters handed over
    let d = apply_d(&prog, mode);
    let attrs = guard(|| api::calc(&d, &conv));
    let reference = guard(|| dump(&api::perf_calc(sc.apply(Performance::new(&conv).difficulty(d.clone())))));
    let Ok(reference) = reference else {
        ctx.count("skipped_reference_panic");
        return;
    };
    let mut variants: Vec<(&str, Result<String, crate::runner::PanicInfo>)> = Vec::new();
    variants.push((
        "Performance(&map).setters",
        guard(|| dump(&api::perf_calc(sc.apply(prog.iter().fold(Performance::new(&conv), |p, s| s.on_performance(p, mode)))))),
    ));
    variants.push((
        "Performance(map).setters",
        guard(|| dump(&api::perf_calc(sc.apply(prog.iter().fold(Performance::new(conv.clone()), |p, s| s.on_performance(p, mode)))))),
    ));
    let mut skipped_any = false;
    variants.push((
        "ModePerformance(&map).setters",
        guard(|| {
            let mut p = mode_perf_of(&conv, mode);
            let mut rest: Vec<&Setter> = Vec::new();
            for s in &prog {
                let (np, applied) = s.on_mode_performance(p, mode);
                p = np;
                if !applied {
                    rest.push(s);
                }
            }
            // setters the mode-specific builder does not offer are documented as irrelevant there
            skipped_any = !rest.is_empty();
            dump(&api::perf_calc(sc.apply(p)))
        }),
    ));
    // from attributes: the attributes must belong to the same settings, the setters are supplied again
    if let Ok(a) = &attrs {
        let a1 = a.clone();
        variants.push((
            "Performance(attrs).setters",
            guard(|| dump(&api::perf_calc(sc.apply(prog.iter().fold(Performance::new(a1), |p, s| s.on_performance(p, mode)))))),
        ));
    }
    for (name, r) in variants {
        ctx.eval();
        match r {
            Ok(v) => {
                if v != reference {
                    ctx.violation(
                        &format!("C18/B1/{mname}/{name}"),
                        &format!("{name} differs from .difficulty(Difficulty::new().setters) | {ctxs}\n setters   : {}\n difficulty: {}", truncate(&v, 1500), truncate(&reference, 1500)),
                        Some(text),
                    );
                }
            }
            Err(p) => ctx.violation(&format!("C18/B1/{mname}/{name}/{}", p.sig()), &format!("{} at {} | {ctxs}", p.msg, p.loc), Some(text)),
        }
    }
    if skipped_any {
        ctx.count("class:mode-builder-lacks-setter");
    }

    // ---- B1 across a mode switch: the builder starts on the *unconverted* osu! map, is switched to the target mode, and the
    // setters are applied partly before and partly after the switch - against the same builder handed the whole Difficulty
    // after the switch. (Mania converts depend on the mods at the moment of the switch: only programs without a mods setter.
    // `hardrock_offsets` is documented as a no-op on a non-catch builder: those setters always go after the switch, their
    // relative order kept.)
    if map.mode == GameMode::Osu && mode != GameMode::Osu && (mode != GameMode::Mania || !prog.iter().any(|s| matches!(s, Setter::Mods(_)))) {
        let reference2 = guard(|| dump(&api::perf_calc(sc.apply(Performance::new(&map).mode_or_ignore(mode).difficulty(d.clone())))));
        if let Ok(reference2) = reference2 {
            let split = |k: usize| -> (Vec<&Setter>, Vec<&Setter>) {
                let mut before = Vec::new();
                let mut after = Vec::new();
                for (j, s) in prog.iter().enumerate() {
                    if j < k && !matches!(s, Setter::Hro(_)) {
                        before.push(s);
                    } else {
                        after.push(s);
                    }
                }
                // every setter on a field that also appears later must not overtake it: a setter moved behind the switch stays
                // behind all earlier ones, one kept before stays before all later ones - only `Hro` (independent field) moves
                (before, after)
            };
            let k = rng.usize_below(prog.len() + 1);
            let mut variants2: Vec<(String, Result<String, crate::runner::PanicInfo>)> = Vec::new();
            for (label, kk, owned) in [("switch.setters", 0usize, false), ("setters.switch.setters", k, false), ("setters.switch.setters(owned)", k, true), ("setters.switch", prog.len(), false)] {
                let (before, after) = split(kk);
                let r = guard(|| {
                    let p0 = if owned { Performance::new(map.clone()) } else { Performance::new(&map) };
                    let p = before.iter().fold(p0, |p, s| s.on_performance(p, mode));
                    let p = if kk % 2 == 0 {
                        p.mode_or_ignore(mode)
                    } else {
                        match p.try_mode(mode) {
                            Ok(p) | Err(p) => p,
                        }
                    };
                    let p = after.iter().fold(p, |p, s| s.on_performance(p, mode));
                    dump(&api::perf_calc(sc.apply(p)))
                });
                variants2.push((format!("Performance(&osu_map).{label}"), r));
            }
            ctx.count("B1_across_switch");
            for (name, r) in variants2 {
                ctx.eval();
                match r {
                    Ok(v) => {
                        if v != reference2 {
                            ctx.violation(
                                &format!("C18/B1-switch/{mname}/{name}"),
                                &format!("{name} differs from Performance(&osu_map).switch.difficulty(Difficulty::new().setters) | split at {k} | {ctxs}\n setters   : {}\n difficulty: {}", truncate(&v, 1500), truncate(&reference2, 1500)),
                                Some(text),
                            );
                        }
                    }
                    Err(p) => ctx.violation(&format!("C18/B1-switch/{mname}/{name}/{}", p.sig()), &format!("{} at {} | {ctxs}", p.msg, p.loc), Some(text)),
                }
            }
        }
    }

    // ---- permutation of setters on distinct fields; repeated setters: last wins
    {
        let mut last: Vec<Setter> = Vec::new();
        for s in &prog {
            last.retain(|x| x.field() != s.field());
            last.push(s.clone());
        }
        let mut perm = last.clone();
        rng.shuffle(&mut perm);
        let dp = apply_d(&perm, mode);
        ctx.eval();
        if dump(&dp) != dump(&d) || dp != d {
            ctx.violation(
                &format!("C18/order/{mname}"),
                &format!("last-wins / permutation of independent setters changes the Difficulty | program={prog:?} permuted={perm:?}\n a: {}\n b: {}", dump(&d), dump(&dp)),
                Some(text),
            );
        }
    }

    // ---- B2: inspect round trip
    {
        ctx.eval();
        let rt = d.clone().inspect().into_difficulty();
        let rt2: Difficulty = rosu_pp::any::InspectDifficulty::from(d.clone()).into();
        if rt != d || dump(&rt) != dump(&d) || rt2 != d {
            ctx.violation(
                &format!("C18/B2/roundtrip"),
                &format!("inspect().into_difficulty() changed the value | program={prog:?}\n before: {}\n after : {}", dump(&d), dump(&rt)),
                Some(text),
            );
        }
    }

    // ---- B3: clamping, observed through inspect() and through results
    {
        let ins = d.clone().inspect();
        let mut want_clock = None;
        let mut want = [None::<(f32, bool)>; 4];
        for s in &prog {
            match s {
                Setter::Clock(c) => want_clock = Some(c.clamp(0.01, 100.0)),
                Setter::Ar(v, f) => want[0] = Some((v.clamp(-20.0, 20.0), *f)),
                Setter::Cs(v, f) => want[1] = Some((v.clamp(-20.0, 20.0), *f)),
                Setter::Hp(v, f) => want[2] = Some((v.clamp(-20.0, 20.0), *f)),
                Setter::Od(v, f) => want[3] = Some((v.clamp(-20.0, 20.0), *f)),
                _ => {}
            }
        }
        ctx.eval();
        let got = [ins.ar, ins.cs, ins.hp, ins.od].map(|o| o.map(|m| (m.value, m.with_mods)));
        if ins.clock_rate.map(f64::to_bits) != want_clock.map(f64::to_bits) || got != want {
            ctx.violation(
                &format!("C18/B3/clamp-observed"),
                &format!("inspect() shows clock={:?} overrides={got:?}, expected clock={want_clock:?} overrides={want:?} | program={prog:?}", ins.clock_rate),
                Some(text),
            );
        }
        // result with the out-of-range value == result with the bound
        let bounded: Vec<Setter> = prog
            .iter()
            .map(|s| match s {
                Setter::Clock(c) => Setter::Clock(c.clamp(0.01, 100.0)),
                Setter::Ar(v, f) => Setter::Ar(v.clamp(-20.0, 20.0), *f),
                Setter::Cs(v, f) => Setter::Cs(v.clamp(-20.0, 20.0), *f),
                Setter::Hp(v, f) => Setter::Hp(v.clamp(-20.0, 20.0), *f),
                Setter::Od(v, f) => Setter::Od(v.clamp(-20.0, 20.0), *f),
                o => o.clone(),
            })
            .collect();
        let db = apply_d(&bounded, mode);
        ctx.eval();
        if let Ok(r) = guard(|| dump(&api::perf_calc(sc.apply(Performance::new(&conv).difficulty(db))))) {
            if r != reference {
                ctx.violation(
                    &format!("C18/B3/result-with-bound/{mname}"),
                    &format!("result with out-of-range values differs from the result with the documented bounds | {ctxs}"),
                    Some(text),
                );
            }
        }
    }

    // ---- B3b: an InspectDifficulty built or edited by hand is the same as using the setters (clamps included)
    {
        use rosu_pp::any::{InspectDifficulty, ModsDependent};
        let md = |rng: &mut Rng| -> Option<ModsDependent> {
            if rng.chance(0.6) {
                Some(ModsDependent {
                    value: gen_value(rng),
                    with_mods: rng.chance(0.5),
                })
            } else {
                None
            }
        };
        let ins = InspectDifficulty {
            mods: sets::gen_mods(&mut rng, mode).to_gamemods(mode),
            passed_objects: if rng.chance(0.3) { Some(rng.below(u64::from(n_obj) + 2) as u32) } else { None },
            clock_rate: if rng.chance(0.5) { Some(gen_clock(&mut rng)) } else { None },
            ar: md(&mut rng),
            cs: md(&mut rng),
            hp: md(&mut rng),
            od: md(&mut rng),
            hardrock_offsets: if rng.chance(0.3) { Some(rng.chance(0.5)) } else { None },
            lazer: if rng.chance(0.3) { Some(rng.chance(0.5)) } else { None },
        };
        // the same values through the setters
        let mut want = Difficulty::new().mods(ins.mods.clone());
        if let Some(p) = ins.passed_objects {
            want = want.passed_objects(p);
        }
        if let Some(c) = ins.clock_rate {
            want = want.clock_rate(c);
        }
        if let Some(m) = ins.ar {
            want = want.ar(m.value, m.with_mods);
        }
        if let Some(m) = ins.cs {
            want = want.cs(m.value, m.with_mods);
        }
        if let Some(m) = ins.hp {
            want = want.hp(m.value, m.with_mods);
        }
        if let Some(m) = ins.od {
            want = want.od(m.value, m.with_mods);
        }
        if let Some(h) = ins.hardrock_offsets {
            want = want.hardrock_offsets(h);
        }
        if let Some(l) = ins.lazer {
            want = want.lazer(l);
        }
        let desc = format!("{ins:?}");
        let got: Difficulty = if rng.chance(0.5) { ins.into_difficulty() } else { Difficulty::from(ins) };
        ctx.eval();
        ctx.count("handbuilt_inspect_checks");
        if got != want || dump(&got) != dump(&want) {
            ctx.violation(
                "C18/B3/handbuilt-inspect",
                &format!("InspectDifficulty::into_difficulty differs from applying the same values through the setters\n inspect: {desc}\n got : {}\n want: {}", dump(&got), dump(&want)),
                Some(text),
            );
        }
    }

    // ---- B4: documented no-ops
    {
        let base = || sc.apply(Performance::new(&conv).difficulty(d.clone()));
        let v = gen_value(&mut rng);
        let n = rng.below(u64::from(n_obj) * 2 + 2) as u32;
        let flag = rng.chance(0.5);
        let fin = |p: Performance<'_>| dump(&api::perf_calc(p));
        let mut noops: Vec<(&str, Box<dyn FnOnce() -> String + '_>)> = Vec::new();
        if matches!(mode, GameMode::Taiko | GameMode::Mania) {
            noops.push(("ar", Box::new(|| fin(sc.apply(Performance::new(&conv).difficulty(d.clone().ar(v, flag)))))));
            noops.push(("cs", Box::new(|| fin(sc.apply(Performance::new(&conv).difficulty(d.clone().cs(v, flag)))))));
            noops.push(("Performance::ar", Box::new(|| fin(base().ar(v, flag)))));
            noops.push(("Performance::cs", Box::new(|| fin(base().cs(v, flag)))));
        }
        if mode != GameMode::Catch {
            noops.push(("hardrock_offsets", Box::new(|| fin(sc.apply(Performance::new(&conv).difficulty(d.clone().hardrock_offsets(flag)))))));
            noops.push(("Performance::hardrock_offsets", Box::new(|| fin(base().hardrock_offsets(flag)))));
        }
        if matches!(mode, GameMode::Taiko | GameMode::Catch) {
            noops.push(("lazer", Box::new(|| fin(sc.apply(Performance::new(&conv).difficulty(d.clone().lazer(flag)))))));
            noops.push(("Performance::lazer", Box::new(|| fin(base().lazer(flag)))));
        }
        if mode == GameMode::Catch {
            noops.push((
                "hitresult_priority",
                Box::new(|| fin(base().hitresult_priority(if flag { HitResultPriority::WorstCase } else { HitResultPriority::BestCase }))),
            ));
        }
        if mode == GameMode::Mania {
            noops.push(("combo", Box::new(|| fin(base().combo(n)))));
        }
        if mode == GameMode::Taiko {
            noops.push(("n50", Box::new(|| fin(base().n50(n)))));
        }
        if matches!(mode, GameMode::Osu | GameMode::Taiko) {
            noops.push(("n_katu", Box::new(|| fin(base().n_katu(n)))));
        }
        if mode != GameMode::Mania {
            noops.push(("n_geki", Box::new(|| fin(base().n_geki(n)))));
        }
        if mode != GameMode::Osu {
            noops.push(("large_tick_hits", Box::new(|| fin(base().large_tick_hits(n)))));
            noops.push(("small_tick_hits", Box::new(|| fin(base().small_tick_hits(n)))));
            noops.push(("slider_end_hits", Box::new(|| fin(base().slider_end_hits(n)))));
        }
        for (name, f) in noops {
            ctx.eval();
            ctx.count("noop_checks");
            match guard(f) {
                Ok(r) => {
                    if r != reference {
                        ctx.violation(
                            &format!("C18/B4/{mname}/{name}"),
                            &format!("setter {name} documented as irrelevant for {mname} changes the result | {ctxs}\n with   : {}\n without: {}", truncate(&r, 1200), truncate(&reference, 1200)),
                            Some(text),
                        );
                    }
                }
                Err(p) => ctx.violation(&format!("C18/B4/{mname}/{name}/{}", p.sig()), &format!("{} at {} | {ctxs}", p.msg, p.loc), Some(text)),
            }
        }
    }
    ctx.sample(|| ctxs.clone());
}
