//! C20 — concurrent use is interference-free.
//!
//! (a) a job list over maps shared by reference (and owned per thread) is run sequentially and
//! then on 2..16 threads with random assignment and start jitter; per-job digests must be
//! identical; measured overlap is recorded. (c) with the `sync` feature a gradual calculator is
//! handed from thread to thread between steps and must produce its single-thread sequence.
//! The same binary is run natively, under ThreadSanitizer and (tiny) under Miri.

use std::{
    sync::{
        atomic::{AtomicUsize, Ordering},
        Arc,
    },
    time::Instant,
};

use rosu_pp::{model::mode::GameMode, Beatmap, Performance};

use crate::{
    api,
    gen::{self, Mix},
    maps::{self, dump, mode_name},
    osu::{self, Profile},
    rng::{hash_str, Rng},
    runner::{guard, Ctx},
    sets::{self, ScoreSpec, SetSpec},
};

#[derive(Clone, Debug)]
struct Job {
    map: usize,
    mode: GameMode,
    spec: SetSpec,
    sc: ScoreSpec,
    kind: u8,
}

fn run_job(j: &Job, map: &Beatmap) -> String {
    let d = j.spec.to_difficulty(j.mode);
    match j.kind {
        0 => dump(&api::calc_for_mode(&d, map, j.mode)),
        1 => dump(&api::strains_for_mode(&d, map, j.mode)),
        2 => match map.convert_ref(j.mode, &j.spec.mods.to_gamemods(j.mode)) {
            Ok(c) => dump(&api::perf_calc(j.sc.apply(Performance::new(c.as_ref()).difficulty(d)))),
            Err(e) => format!("{e:?}"),
        },
        3 => dump(&map.convert_ref(j.mode, &j.spec.mods.to_gamemods(j.mode)).map(|c| c.into_owned())),
        4 => match api::gradual(j.spec.for_gradual().to_difficulty(j.mode), map, j.mode) {
            Ok(g) => g.step_by(3).take(12).map(|v| dump(&v)).collect::<Vec<_>>().join("|"),
            Err(e) => format!("{e:?}"),
        },
        _ => format!("{:?} {}", map.bpm().to_bits(), dump(&map.attributes().difficulty(&d).build())),
    }
}

#[cfg(feature = "sync")]
fn handover(rng: &mut Rng, map: &Beatmap, mode: GameMode, spec: &SetSpec, small: bool) -> Result<(u64, u64), String> {
    use rosu_pp::GradualDifficulty;
    use std::sync::mpsc;
    let d = spec.for_gradual().to_difficulty(mode);
    let Ok(reference) = GradualDifficulty::new_with_mode(d.clone(), map, mode) else { return Ok((0, 0)) };
    let seq: Vec<String> = reference.map(|v| dump(&v)).collect();
    let n = seq.len();
    let mut chains = 0u64;
    let mut handovers = 0u64;
    // all split points for two threads on short sequences, random chains otherwise
    let splits: Vec<Vec<usize>> = if n <= 12 && !small {
        (0..=n).map(|k| vec![k, n + 1 - k.min(n)]).collect()
    } else {
        (0..if small { 2 } else { 6 })
            .map(|_| {
                let t = 2 + rng.usize_below(if small { 2 } else { 7 });
                (0..t).map(|_| rng.usize_below(n / 2 + 2)).collect()
            })
            .collect()
    };
    for steps_per_thread in splits {
        let g = GradualDifficulty::new_with_mode(d.clone(), map, mode).map_err(|e| format!("{e:?}"))?;
        // chain of threads connected by channels; each takes k steps and passes the calculator on
        let (tx0, mut rx_prev) = mpsc::channel::<(GradualDifficulty, Vec<String>)>();
        tx0.send((g, Vec::new())).map_err(|_| "send failed".to_string())?;
        let mut handles = Vec::new();
        for k in steps_per_thread.iter().copied() {
            let (tx, rx) = mpsc::channel::<(GradualDifficulty, Vec<String>)>();
            let rx_in = rx_prev;
            handles.push(std::thread::spawn(move || {
                if let Ok((mut g, mut out)) = rx_in.recv() {
                    for _ in 0..k {
                        match g.next() {
                            Some(v) => out.push(dump(&v)),
                            None => break,
                        }
                    }
                    let _ = tx.send((g, out));
                }
            }));
            rx_prev = rx;
            handovers += 1;
        }
        let (g, mut out) = rx_prev.recv().map_err(|_| "chain broke (a thread panicked)".to_string())?;
        for h in handles {
            h.join().map_err(|_| "thread panicked".to_string())?;
        }
        // finish on the main thread
        out.extend(g.map(|v| dump(&v)));
        chains += 1;
        if out != seq {
            let first = out.iter().zip(seq.iter()).position(|(a, b)| a != b).unwrap_or(out.len().min(seq.len()));
            return Err(format!(
                "hand-over chain {steps_per_thread:?}: produced {} values, single thread {}; first difference at #{first}",
                out.len(),
                seq.len()
            ));
        }
    }
    Ok((chains, handovers))
}

/// The same for a gradual *performance* calculator: every step is taken on a different thread.
#[cfg(feature = "sync")]
fn handover_perf(rng: &mut Rng, map: &Beatmap, mode: GameMode, spec: &SetSpec) -> Result<u64, String> {
    use rosu_pp::GradualPerformance;
    let d = spec.for_gradual().to_difficulty(mode);
    let n_obj = map.hit_objects.len() as u32;
    let sched: Vec<(usize, rosu_pp::any::ScoreState)> = (0..6).map(|_| (rng.usize_below(4), sets::gen_state(rng, n_obj + 1))).collect();
    let Ok(mut reference) = GradualPerformance::new_with_mode(d.clone(), map, mode) else { return Ok(0) };
    let want: Vec<String> = sched.iter().map(|(k, s)| dump(&reference.nth(s.clone(), *k))).collect();
    let mut g = GradualPerformance::new_with_mode(d, map, mode).map_err(|e| format!("{e:?}"))?;
    let mut got = Vec::new();
    for (k, s) in sched {
        // each step on a freshly spawned thread; the calculator is moved there and back
        let (g2, r) = std::thread::spawn(move || {
            let r = dump(&g.nth(s, k));
            (g, r)
        })
        .join()
        .map_err(|_| "thread panicked".to_string())?;
        g = g2;
        got.push(r);
    }
    if got != want {
        let first = got.iter().zip(want.iter()).position(|(a, b)| a != b).unwrap_or(0);
        return Err(format!("gradual performance handed over between threads differs from the single-thread run at step {first}"));
    }
    Ok(got.len() as u64)
}

/// Ping-pong: a small pool of *persistent* threads; the calculator visits them in turn (one to three steps per visit)
/// and so returns again and again to a thread that stepped it before - per-thread state left behind by an earlier
/// visit (thread-locals, lazily initialised caches) must not influence a later one.
#[cfg(feature = "sync")]
fn handover_pingpong(rng: &mut Rng, map: &Beatmap, mode: GameMode, spec: &SetSpec, small: bool) -> Result<(u64, u64), String> {
    use rosu_pp::{GradualDifficulty, GradualPerformance};
    use std::sync::mpsc;
    enum Job {
        Diff(GradualDifficulty, usize),
        Perf(GradualPerformance, Vec<(usize, rosu_pp::any::ScoreState)>),
    }
    enum Done {
        Diff(GradualDifficulty, Vec<String>),
        Perf(GradualPerformance, Vec<String>),
    }
    let d = spec.for_gradual().to_difficulty(mode);
    let Ok(reference) = GradualDifficulty::new_with_mode(d.clone(), map, mode) else { return Ok((0, 0)) };
    let seq: Vec<String> = reference.map(|v| dump(&v)).collect();
    let n_threads = 2 + rng.usize_below(2);
    let mut visits = 0u64;
    let mut steps = 0u64;
    let res = std::thread::scope(|sc| -> Result<(), String> {
        let mut txs = Vec::new();
        let (back_tx, back_rx) = mpsc::channel::<Done>();
        for _ in 0..n_threads {
            let (tx, rx) = mpsc::channel::<Job>();
            let back = back_tx.clone();
            sc.spawn(move || {
                while let Ok(job) = rx.recv() {
                    let done = match job {
                        Job::Diff(mut g, k) => {
                            let mut out = Vec::new();
                            for _ in 0..k {
                                match g.next() {
                                    Some(v) => out.push(dump(&v)),
                                    None => break,
                                }
                            }
                            Done::Diff(g, out)
                        }
                        Job::Perf(mut g, sched) => {
                            let out = sched.into_iter().map(|(k, st)| dump(&g.nth(st, k))).collect();
                            Done::Perf(g, out)
                        }
                    };
                    if back.send(done).is_err() {
                        break;
                    }
                }
            });
            txs.push(tx);
        }
        // difficulty: visit the threads round-robin or at random until exhausted
        let mut g = GradualDifficulty::new_with_mode(d.clone(), map, mode).map_err(|e| format!("{e:?}"))?;
        let mut out: Vec<String> = Vec::new();
        let round_robin = rng.chance(0.5);
        let max_visits = if small { 12 } else { 150 };
        let mut order = Vec::new();
        for v in 0..max_visits {
            let ti = if round_robin { v % n_threads } else { rng.usize_below(n_threads) };
            let k = 1 + rng.usize_below(3);
            order.push((ti, k));
            txs[ti].send(Job::Diff(g, k)).map_err(|_| "worker gone (panicked)".to_string())?;
            let Ok(Done::Diff(g2, o)) = back_rx.recv() else { return Err("worker gone (panicked)".into()) };
            g = g2;
            visits += 1;
            steps += o.len() as u64;
            let short = o.len() < k;
            out.extend(o);
            if short {
                break;
            }
        }
        out.extend(g.map(|v| dump(&v)));
        if out != seq {
            let first = out.iter().zip(seq.iter()).position(|(a, b)| a != b).unwrap_or(out.len().min(seq.len()));
            order.truncate(24);
            return Err(format!(
                "gradual difficulty visiting {n_threads} persistent threads (thread, steps) {order:?}..: {} values, single thread {}; first difference at #{first}",
                out.len(),
                seq.len()
            ));
        }
        // performance: same pool
        let n_obj = map.hit_objects.len() as u32;
        let sched: Vec<(usize, rosu_pp::any::ScoreState)> =
            (0..if small { 4 } else { 10 }).map(|_| (rng.usize_below(3), sets::gen_state(rng, n_obj + 1))).collect();
        let Ok(mut reference) = GradualPerformance::new_with_mode(d.clone(), map, mode) else { return Ok(()) };
        let want: Vec<String> = sched.iter().map(|(k, st)| dump(&reference.nth(st.clone(), *k))).collect();
        let mut gp = GradualPerformance::new_with_mode(d.clone(), map, mode).map_err(|e| format!("{e:?}"))?;
        let mut got = Vec::new();
        for (i, item) in sched.into_iter().enumerate() {
            txs[i % n_threads].send(Job::Perf(gp, vec![item])).map_err(|_| "worker gone (panicked)".to_string())?;
            let Ok(Done::Perf(g2, o)) = back_rx.recv() else { return Err("worker gone (panicked)".into()) };
            gp = g2;
            visits += 1;
            got.extend(o);
        }
        if got != want {
            let first = got.iter().zip(want.iter()).position(|(a, b)| a != b).unwrap_or(0);
            return Err(format!("gradual performance visiting {n_threads} persistent threads round-robin differs from the single-thread run at step {first}"));
        }
        drop(txs);
        Ok(())
    });
    res.map(|()| (visits, steps))
}

#[allow(clippy::too_many_lines)]
pub fn case(ctx: &mut Ctx, idx: u64) {
    let mut rng = Rng::for_case(ctx.seed, "C20", idx);
    let small = ctx.param_u64("small", 0) == 1;
    let max_threads = ctx.param_u64("max_threads", 16) as usize;
    // pool of maps
    let n_maps = if small { 2 } else { 3 + rng.usize_below(4) };
    let mut texts = Vec::new();
    let mut pool: Vec<Beatmap> = Vec::new();
    for _ in 0..n_maps * 3 {
        if pool.len() >= n_maps {
            break;
        }
        let mc = if small {
            let p = *rng.pick(&[Profile::Tiny, Profile::Editor, Profile::NonHitFirst]);
            gen::MapCase {
                text: osu::generate(
                    &mut rng,
                    &osu::GenOpts {
                        profile: p,
                        mode: None,
                        max_objects: 5,
                    },
                )
                .render(),
                tag: "gram".into(),
            }
        } else {
            // cold-start campaign: the first map (first wave) is short, so that all threads reach the same code within
            // a few microseconds of each other
            let cold_first = pool.is_empty() && ctx.param_u64("cold", 0) != 0;
            gen::gen_map(
                &mut rng,
                &Mix {
                    realistic: true,
                    max_objects: if cold_first { 10 } else { 120 },
                    fixtures: !cold_first,
                    ..Mix::default()
                },
            )
        };
        if let Some(m) = maps::decode(&mc.text) {
            if maps::out_of_domain(&m, maps::Domain::Realistic, 400).is_none() && maps::est_sections(&m, 0.5) < 50_000.0 {
                texts.push(mc.text);
                pool.push(m);
            }
        }
    }
    if pool.is_empty() {
        ctx.count("skipped_no_map");
        return;
    }
    let n_jobs = if small { 4 } else { 30 + rng.usize_below(50) };
    // every third case: the taiko / mania jobs carry a seeded lazer Random mod, with only two or three different seeds in
    // the whole job list (the same seed is needed again while another thread is busy with a different one)
    let random_heavy = rng.below(3) == 0;
    let seeds: Vec<f64> = (0..2 + rng.usize_below(2)).map(|_| rng.range(0, 99_999) as f64).collect();
    if random_heavy {
        ctx.count("class:random-mod-heavy-job-list");
    }
    let jobs: Vec<Job> = (0..n_jobs)
        .map(|_| {
            // few maps, many jobs: the same map is worked on by several threads at once
            let map = rng.usize_below(pool.len().min(3));
            let mode = *rng.pick(&maps::reachable_modes(&pool[map]));
            let mut spec = sets::gen_setspec_wide(&mut rng, mode, &pool[map]);
            if rng.chance(0.2) {
                spec.passed = Some(rng.below(pool[map].hit_objects.len() as u64 + 2) as u32);
            }
            if random_heavy && matches!(mode, GameMode::Taiko | GameMode::Mania) {
                spec.mods.repr = sets::Repr::Lazer;
                spec.mods.extra.random = Some(Some(*rng.pick(&seeds)));
            }
            Job {
                map,
                mode,
                spec,
                sc: sets::gen_scorespec(&mut rng, pool[map].hit_objects.len() as u32 + 2),
                kind: rng.below(6) as u8,
            }
        })
        .collect();
    let mut jobs = jobs;
    if ctx.param_u64("cold", 0) != 0 {
        // cold-start campaign: the first wave (job 0, run by every thread at once) is a difficulty-bearing calculation;
        // mode and kind rotate with the case index so that every mode's first-use paths are raced in some process
        let modes = maps::reachable_modes(&pool[0]);
        let mode = modes[(idx as usize) % modes.len()];
        let kind = [0u8, 0, 2, 4, 1][(idx as usize / 4) % 5];
        let mut spec = sets::gen_setspec_wide(&mut rng, mode, &pool[0]);
        if idx % 2 == 0 {
            spec = SetSpec::default();
        }
        let first = Job {
            map: 0,
            mode,
            spec,
            sc: sets::gen_scorespec(&mut rng, pool[0].hit_objects.len() as u32 + 2),
            kind,
        };
        jobs.insert(0, first);
    }
    let all_text = texts.join("\n");

    let before: Vec<String> = pool.iter().map(dump).collect();
    let shared = Arc::new(pool);
    let jobs = Arc::new(jobs);
    ctx.nontrivial(hash_str(&all_text));

    // One parallel schedule: random assignment of the jobs to `threads` threads, rendezvous, optional start jitter.
    // `same_first`: every thread starts with job 0 (cold-start campaign: the very first calculations of the process coincide).
    type Res = Vec<(usize, String, u64, u64, usize)>;
    let run_schedule = |rng: &mut Rng, threads: usize, owned: bool, jitter: bool, same_first: bool| -> Option<Res> {
        let mut assign: Vec<Vec<usize>> = vec![Vec::new(); threads];
        for j in 0..jobs.len() {
            assign[rng.usize_below(threads)].push(j);
        }
        for a in &mut assign {
            rng.shuffle(a);
            if same_first {
                a.insert(0, 0);
            }
        }
        let jitters: Vec<u64> = (0..threads).map(|_| if jitter { rng.below(300) } else { 0 }).collect();
        let t0 = Instant::now();
        let started = Arc::new(AtomicUsize::new(0));
        let mut handles = Vec::new();
        for (ti, my_jobs) in assign.into_iter().enumerate() {
            let shared = Arc::clone(&shared);
            let jobs = Arc::clone(&jobs);
            let started = Arc::clone(&started);
            let jitter = jitters[ti];
            handles.push(std::thread::spawn(move || {
                let local: Option<Vec<Beatmap>> = if owned { Some((*shared).clone()) } else { None };
                // rendezvous (+ start jitter) so that the threads really run at the same time
                started.fetch_add(1, Ordering::SeqCst);
                let spin = Instant::now();
                while started.load(Ordering::SeqCst) < threads && spin.elapsed().as_millis() < 200 {
                    std::hint::spin_loop();
                }
                if jitter > 0 {
                    std::thread::sleep(std::time::Duration::from_micros(jitter));
                }
                let mut out = Vec::new();
                for j in my_jobs {
                    let job = &jobs[j];
                    let map = match &local {
                        Some(l) => &l[job.map],
                        None => &shared[job.map],
                    };
                    let s = t0.elapsed().as_nanos() as u64;
                    let r = guard(|| run_job(job, map));
                    let e = t0.elapsed().as_nanos() as u64;
                    out.push((j, r.unwrap_or_else(|p| format!("PANIC {}", p.sig())), s, e, ti));
                }
                out
            }));
        }
        let mut results: Res = Vec::new();
        for h in handles {
            match h.join() {
                Ok(v) => results.extend(v),
                Err(_) => return None,
            }
        }
        Some(results)
    };

    // cold-start campaign (`--param cold=1`, one case per process): the parallel schedule runs BEFORE anything else has
    // been calculated in this process, so lazily initialised process-wide state is set up by racing threads; the
    // sequential reference is taken afterwards.
    // `cold=2`: the reference process of the cold-start campaign - the same cases and jobs, calculated strictly one after
    // another by a process that never runs two calculations at once. Process-wide state that a race corrupted *for good*
    // (an append-only table, a cached constant) makes the racing process agree with itself; only another process can tell.
    if ctx.param_u64("cold", 0) == 2 {
        match guard(|| jobs.iter().map(|j| run_job(j, &shared[j.map])).collect::<Vec<_>>()) {
            Ok(v) => {
                for (j, r) in v.iter().enumerate() {
                    ctx.hist_line(&format!("{idx}/{j}/kind{}", jobs[j].kind), hash_str(r));
                }
                ctx.evals(v.len() as u64);
                ctx.count("cold_start_reference_cases");
            }
            Err(p) => ctx.violation(&format!("C20/reference-panic/{}", p.sig()), &format!("{} at {}", p.msg, p.loc), Some(&all_text)),
        }
        return;
    }
    let cold = ctx.param_u64("cold", 0) == 1;
    let cold_results = if cold {
        let threads = max_threads.clamp(2, 16);
        ctx.count("cold_start_schedules");
        match run_schedule(&mut rng, threads, false, false, true) {
            Some(r) => {
                for (j, got, _, _, _) in &r {
                    ctx.hist_line(&format!("{idx}/{j}/kind{}", jobs[*j].kind), hash_str(got));
                }
                Some((threads, r))
            }
            None => {
                ctx.violation("C20/thread-died", "a worker thread died (cold start)", Some(&all_text));
                return;
            }
        }
    } else {
        None
    };

    // sequential reference
    let seq: Vec<String> = match guard(|| jobs.iter().map(|j| run_job(j, &shared[j.map])).collect::<Vec<_>>()) {
        Ok(v) => v,
        Err(p) => {
            ctx.count("skipped_reference_panic");
            ctx.violation(&format!("C20/reference-panic/{}", p.sig()), &format!("{} at {}", p.msg, p.loc), Some(&all_text));
            return;
        }
    };

    let n_sched = if cold {
        0
    } else if small {
        1
    } else if ctx.thorough() {
        6
    } else {
        3
    };
    let mut overlap_total = 0u64;
    let mut pending: Vec<(usize, bool, bool, Res)> = Vec::new();
    if let Some((threads, r)) = cold_results {
        pending.push((threads, false, true, r));
    }
    for sched in 0..=n_sched {
        let (threads, owned, was_cold, results) = if let Some(p) = pending.pop() {
            p
        } else if sched < n_sched {
            let threads = if small { 2 } else { *rng.pick(&[2usize, 4, 8, 16]) }.min(max_threads.max(2));
            let owned = sched % 3 == 2; // every third schedule: maps owned per thread instead of shared by reference
            match run_schedule(&mut rng, threads, owned, true, false) {
                Some(r) => (threads, owned, false, r),
                None => {
                    ctx.violation("C20/thread-died", "a worker thread died", Some(&all_text));
                    return;
                }
            }
        } else {
            break;
        };
        ctx.evals(results.len() as u64);
        ctx.count(&format!("schedules:{threads}-threads"));
        ctx.count(if owned { "schedules:owned-maps" } else { "schedules:shared-maps" });
        // overlap: jobs on the same map, different threads, intersecting [start, end]
        let mut overlap = 0u64;
        for (a, ra) in results.iter().enumerate() {
            for rb in results.iter().skip(a + 1) {
                if ra.4 != rb.4 && jobs[ra.0].map == jobs[rb.0].map && ra.2 < rb.3 && rb.2 < ra.3 {
                    overlap += 1;
                }
            }
        }
        overlap_total += overlap;
        if was_cold {
            ctx.count_n("cold_start_overlapping_pairs", overlap);
        }
        for (j, got, _, _, ti) in &results {
            if *got != seq[*j] {
                let job = &jobs[*j];
                ctx.violation(
                    &format!("C20/parallel-vs-sequential/kind{}{}", job.kind, if was_cold { "/cold-start" } else { "" }),
                    &format!(
                        "job #{j} (map {}, mode {}, kind {}) on thread {ti} of {threads} ({}{}) differs from the sequential run | settings=[{}] overlap={overlap}\n parallel  : {}\n sequential: {}",
                        job.map,
                        mode_name(job.mode),
                        job.kind,
                        if owned { "owned maps" } else { "shared maps" },
                        if was_cold { ", first calculations of the process" } else { "" },
                        job.spec.describe(),
                        crate::runner::truncate(got, 800),
                        crate::runner::truncate(&seq[*j], 800)
                    ),
                    Some(&all_text),
                );
                return;
            }
        }
        // shared maps untouched
        for (k, m) in shared.iter().enumerate() {
            if dump(m) != before[k] {
                ctx.violation("C20/shared-map-mutated", &format!("map #{k} changed during a parallel schedule"), Some(&all_text));
                return;
            }
        }
    }
    ctx.count_n("overlapping_job_pairs_same_map", overlap_total);

    // (c) hand-over between threads (sync feature only)
    #[cfg(feature = "sync")]
    {
        let n_h = if small { 1 } else { 2 };
        for _ in 0..n_h {
            let mi = rng.usize_below(shared.len());
            let map = &shared[mi];
            let mode = *rng.pick(&maps::reachable_modes(map));
            let spec = sets::gen_setspec_wide(&mut rng, mode, map);
            let mut r2 = rng.fork();
            match guard(|| handover(&mut r2, map, mode, &spec, small)) {
                Ok(Ok((chains, hand))) => {
                    ctx.evals(chains);
                    ctx.count_n("handover_chains", chains);
                    ctx.count_n("handovers", hand);
                    ctx.count(&format!("handover:{}", mode_name(mode)));
                }
                Ok(Err(msg)) => ctx.violation(&format!("C20/handover/{}", mode_name(mode)), &format!("{msg} | settings=[{}]", spec.describe()), Some(&texts[mi])),
                Err(p) => ctx.violation(&format!("C20/handover-panic/{}/{}", mode_name(mode), p.sig()), &format!("{} at {}", p.msg, p.loc), Some(&texts[mi])),
            }
            let mut r4 = rng.fork();
            match guard(|| handover_pingpong(&mut r4, map, mode, &spec, small)) {
                Ok(Ok((visits, steps))) => {
                    ctx.evals(visits);
                    ctx.count_n("pingpong_visits", visits);
                    ctx.count_n("pingpong_steps", steps);
                }
                Ok(Err(msg)) => ctx.violation(&format!("C20/handover-pingpong/{}", mode_name(mode)), &format!("{msg} | settings=[{}]", spec.describe()), Some(&texts[mi])),
                Err(p) => ctx.violation(&format!("C20/handover-pingpong-panic/{}/{}", mode_name(mode), p.sig()), &format!("{} at {}", p.msg, p.loc), Some(&texts[mi])),
            }
            let mut r3 = rng.fork();
            match guard(|| handover_perf(&mut r3, map, mode, &spec)) {
                Ok(Ok(steps)) => {
                    ctx.evals(steps);
                    ctx.count_n("handover_performance_steps", steps);
                }
                Ok(Err(msg)) => ctx.violation(&format!("C20/handover-performance/{}", mode_name(mode)), &format!("{msg} | settings=[{}]", spec.describe()), Some(&texts[mi])),
                Err(p) => ctx.violation(&format!("C20/handover-performance-panic/{}/{}", mode_name(mode), p.sig()), &format!("{} at {}", p.msg, p.loc), Some(&texts[mi])),
            }
        }
    }
    ctx.sample(|| format!("maps={} jobs={} schedules={n_sched} overlap_pairs={overlap_total}", shared.len(), jobs.len()));
}
