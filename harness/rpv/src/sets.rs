//! G-set / G-score: serialisable specifications of `Difficulty` settings, mods and score
//! specifications plus their generators.

use rosu_pp::{
    any::{HitResultPriority, ScoreState},
    model::{
        mode::GameMode,
        mods::rosu_mods::{
            self as rm,
            generated_mods::*,
            GameMod, GameMods as LazerMods, GameModsIntermode, GameModsLegacy,
        },
    },
    Difficulty, GameMods, Performance,
};

use crate::rng::Rng;

pub const NF: u32 = 1;
pub const EZ: u32 = 2;
pub const TD: u32 = 4;
pub const HD: u32 = 8;
pub const HR: u32 = 16;
pub const SD: u32 = 32;
pub const DT: u32 = 64;
pub const RX: u32 = 128;
pub const HT: u32 = 256;
pub const NC: u32 = 512 | 64;
pub const FL: u32 = 1024;
pub const SO: u32 = 4096;
pub const AP: u32 = 8192;
pub const K4: u32 = 1 << 15;
pub const K5: u32 = 1 << 16;
pub const K6: u32 = 1 << 17;
pub const K7: u32 = 1 << 18;
pub const K8: u32 = 1 << 19;
pub const K9: u32 = 1 << 24;
pub const K1: u32 = 1 << 26;
pub const K3: u32 = 1 << 27;
pub const K2: u32 = 1 << 28;
pub const KEY_MODS: &[u32] = &[K1, K2, K3, K4, K5, K6, K7, K8, K9];
pub const KEY_BITS_MASK: u32 = K1 | K2 | K3 | K4 | K5 | K6 | K7 | K8 | K9;

pub fn mode_to_rm(mode: GameMode) -> rm::GameMode {
    match mode {
        GameMode::Osu => rm::GameMode::Osu,
        GameMode::Taiko => rm::GameMode::Taiko,
        GameMode::Catch => rm::GameMode::Catch,
        GameMode::Mania => rm::GameMode::Mania,
    }
}

#[derive(Copy, Clone, Debug, PartialEq, Eq)]
pub enum Repr {
    U32,
    Legacy,
    Intermode,
    IntermodeRef,
    Lazer,
    /// The lazer mods of this spec stripped of their settings, as `GameModsIntermode` (owned / borrowed). Only generated
    /// when every setting is at its default, and never by C08 (whose quantifier is about legacy-representable mods).
    LazerAsIntermode,
    LazerAsIntermodeRef,
}

pub const ALL_REPRS: &[Repr] = &[
    Repr::U32,
    Repr::Legacy,
    Repr::Intermode,
    Repr::IntermodeRef,
    Repr::Lazer,
];

#[derive(Clone, Debug, Default, PartialEq)]
pub struct Da {
    pub ar: Option<f64>,
    pub cs: Option<f64>,
    pub hp: Option<f64>,
    pub od: Option<f64>,
    pub hro: Option<bool>,
    pub scroll: Option<f64>,
}

#[derive(Clone, Debug, Default, PartialEq)]
pub struct LazerExtra {
    /// Classic mod; inner value is `no_slider_head_accuracy` (osu! only).
    pub cl: Option<Option<bool>>,
    pub da: Option<Da>,
    pub mirror: Option<Option<String>>,
    pub ho: bool,
    pub invert: bool,
    pub random: Option<Option<f64>>,
    pub bl: bool,
    pub tc: bool,
    /// applied to the rate mod that is present in `bits`
    pub speed_change: Option<f64>,
    /// use DC instead of HT
    pub daycore: bool,
    /// 10K (mania only; has no legacy bit)
    pub ten_keys: bool,
}

impl LazerExtra {
    pub fn is_default(&self) -> bool {
        *self == Self::default()
    }
}

#[derive(Clone, Debug, PartialEq)]
pub struct ModSpec {
    pub bits: u32,
    pub repr: Repr,
    pub extra: LazerExtra,
}

impl Default for ModSpec {
    fn default() -> Self {
        Self {
            bits: 0,
            repr: Repr::U32,
            extra: LazerExtra::default(),
        }
    }
}

impl ModSpec {
    pub fn bits(bits: u32) -> Self {
        Self {
            bits,
            ..Self::default()
        }
    }

    pub fn with_repr(&self, repr: Repr) -> Self {
        Self {
            repr,
            ..self.clone()
        }
    }

    pub fn to_lazer(&self, mode: GameMode) -> LazerMods {
        let m = mode_to_rm(mode);
        let mut mods: LazerMods = GameModsIntermode::from_bits(self.bits).with_mode(m);
        let e = &self.extra;
        let has = |b: u32| self.bits & b == b;

        macro_rules! per_mode {
            ($osu:ident, $taiko:ident, $catch:ident, $mania:ident, $val:expr) => {
                match mode {
                    GameMode::Osu => GameMod::$osu($val),
                    GameMode::Taiko => GameMod::$taiko($val),
                    GameMode::Catch => GameMod::$catch($val),
                    GameMode::Mania => GameMod::$mania($val),
                }
            };
        }

        if e.daycore && has(HT) {
            mods.remove_intermode(rm::GameModIntermode::HalfTime);
            let sc = e.speed_change;
            mods.insert(match mode {
                GameMode::Osu => GameMod::DaycoreOsu(DaycoreOsu { speed_change: sc }),
                GameMode::Taiko => GameMod::DaycoreTaiko(DaycoreTaiko { speed_change: sc }),
                GameMode::Catch => GameMod::DaycoreCatch(DaycoreCatch { speed_change: sc }),
                GameMode::Mania => GameMod::DaycoreMania(DaycoreMania { speed_change: sc }),
            });
        } else if let Some(sc) = e.speed_change {
            let sc = Some(sc);
            if has(NC) {
                mods.insert(match mode {
                    GameMode::Osu => GameMod::NightcoreOsu(NightcoreOsu { speed_change: sc }),
                    GameMode::Taiko => GameMod::NightcoreTaiko(NightcoreTaiko { speed_change: sc }),
                    GameMode::Catch => GameMod::NightcoreCatch(NightcoreCatch { speed_change: sc }),
                    GameMode::Mania => GameMod::NightcoreMania(NightcoreMania { speed_change: sc }),
                });
            } else if has(DT) {
                mods.insert(match mode {
                    GameMode::Osu => GameMod::DoubleTimeOsu(DoubleTimeOsu {
                        speed_change: sc,
                        adjust_pitch: None,
                    }),
                    GameMode::Taiko => GameMod::DoubleTimeTaiko(DoubleTimeTaiko {
                        speed_change: sc,
                        adjust_pitch: None,
                    }),
                    GameMode::Catch => GameMod::DoubleTimeCatch(DoubleTimeCatch {
                        speed_change: sc,
                        adjust_pitch: None,
                    }),
                    GameMode::Mania => GameMod::DoubleTimeMania(DoubleTimeMania {
                        speed_change: sc,
                        adjust_pitch: None,
                    }),
                });
            } else if has(HT) {
                mods.insert(match mode {
                    GameMode::Osu => GameMod::HalfTimeOsu(HalfTimeOsu {
                        speed_change: sc,
                        adjust_pitch: None,
                    }),
                    GameMode::Taiko => GameMod::HalfTimeTaiko(HalfTimeTaiko {
                        speed_change: sc,
                        adjust_pitch: None,
                    }),
                    GameMode::Catch => GameMod::HalfTimeCatch(HalfTimeCatch {
                        speed_change: sc,
                        adjust_pitch: None,
                    }),
                    GameMode::Mania => GameMod::HalfTimeMania(HalfTimeMania {
                        speed_change: sc,
                        adjust_pitch: None,
                    }),
                });
            }
        }

        if let Some(cl) = e.cl {
            mods.insert(match mode {
                GameMode::Osu => GameMod::ClassicOsu(ClassicOsu {
                    no_slider_head_accuracy: cl,
                    ..Default::default()
                }),
                GameMode::Taiko => GameMod::ClassicTaiko(ClassicTaiko {}),
                GameMode::Catch => GameMod::ClassicCatch(ClassicCatch {}),
                GameMode::Mania => GameMod::ClassicMania(ClassicMania {}),
            });
        }

        if let Some(da) = &e.da {
            mods.insert(match mode {
                GameMode::Osu => GameMod::DifficultyAdjustOsu(DifficultyAdjustOsu {
                    circle_size: da.cs,
                    approach_rate: da.ar,
                    drain_rate: da.hp,
                    overall_difficulty: da.od,
                    extended_limits: None,
                }),
                GameMode::Taiko => GameMod::DifficultyAdjustTaiko(DifficultyAdjustTaiko {
                    scroll_speed: da.scroll,
                    drain_rate: da.hp,
                    overall_difficulty: da.od,
                    extended_limits: None,
                }),
                GameMode::Catch => GameMod::DifficultyAdjustCatch(DifficultyAdjustCatch {
                    circle_size: da.cs,
                    approach_rate: da.ar,
                    hard_rock_offsets: da.hro,
                    drain_rate: da.hp,
                    overall_difficulty: da.od,
                    extended_limits: None,
                }),
                GameMode::Mania => GameMod::DifficultyAdjustMania(DifficultyAdjustMania {
                    drain_rate: da.hp,
                    overall_difficulty: da.od,
                    extended_limits: None,
                }),
            });
        }

        if let Some(refl) = &e.mirror {
            match mode {
                GameMode::Osu => mods.insert(GameMod::MirrorOsu(MirrorOsu {
                    reflection: refl.clone(),
                })),
                GameMode::Catch => mods.insert(GameMod::MirrorCatch(MirrorCatch {})),
                GameMode::Mania => mods.insert(GameMod::MirrorMania(MirrorMania {})),
                GameMode::Taiko => {}
            }
        }

        if mode == GameMode::Mania {
            if e.ten_keys {
                mods.insert(GameMod::TenKeysMania(TenKeysMania {}));
            }
            if e.ho {
                mods.insert(GameMod::HoldOffMania(HoldOffMania {}));
            }
            if e.invert {
                mods.insert(GameMod::InvertMania(InvertMania {}));
            }
        }

        if let Some(seed) = e.random {
            match mode {
                GameMode::Mania => mods.insert(GameMod::RandomMania(RandomMania { seed })),
                GameMode::Taiko => mods.insert(GameMod::RandomTaiko(RandomTaiko { seed })),
                GameMode::Osu => mods.insert(GameMod::RandomOsu(RandomOsu {
                    seed,
                    angle_sharpness: None,
                })),
                GameMode::Catch => {}
            }
        }

        if mode == GameMode::Osu {
            if e.bl {
                mods.insert(GameMod::BlindsOsu(BlindsOsu {}));
            }
            if e.tc {
                mods.insert(GameMod::TraceableOsu(TraceableOsu {}));
            }
        }

        let _ = per_mode!(HardRockOsu, HardRockTaiko, HardRockCatch, HardRockMania, Default::default());

        mods
    }

    /// Build the `GameMods` value; `mode` is the calculation mode (only used for `Repr::Lazer`).
    pub fn to_gamemods(&self, mode: GameMode) -> GameMods {
        match self.repr {
            Repr::U32 => self.bits.into(),
            Repr::Legacy => GameModsLegacy::from_bits(self.bits).into(),
            Repr::Intermode => GameModsIntermode::from_bits(self.bits).into(),
            Repr::IntermodeRef => (&GameModsIntermode::from_bits(self.bits)).into(),
            Repr::Lazer => self.to_lazer(mode).into(),
            Repr::LazerAsIntermode => self.to_lazer(mode).iter().map(GameMod::intermode).collect::<GameModsIntermode>().into(),
            Repr::LazerAsIntermodeRef => (&self.to_lazer(mode).iter().map(GameMod::intermode).collect::<GameModsIntermode>()).into(),
        }
    }

    /// Lazer mods, or the same set of mods handed over as `GameModsIntermode`.
    pub fn is_lazer_like(&self) -> bool {
        matches!(self.repr, Repr::Lazer | Repr::LazerAsIntermode | Repr::LazerAsIntermodeRef)
    }

    pub fn describe(&self) -> String {
        if self.is_lazer_like() && !self.extra.is_default() {
            format!("{:?}:{}:{:?}", self.repr, self.bits, self.extra)
        } else {
            format!("{:?}:{}", self.repr, self.bits)
        }
    }
}

#[derive(Clone, Debug, Default, PartialEq)]
pub struct SetSpec {
    pub mods: ModSpec,
    pub clock: Option<f64>,
    pub ar: Option<(f32, bool)>,
    pub cs: Option<(f32, bool)>,
    pub hp: Option<(f32, bool)>,
    pub od: Option<(f32, bool)>,
    pub passed: Option<u32>,
    pub hro: Option<bool>,
    pub lazer: Option<bool>,
}

impl SetSpec {
    pub fn to_difficulty(&self, mode: GameMode) -> Difficulty {
        let mut d = Difficulty::new().mods(self.mods.to_gamemods(mode));
        if let Some(c) = self.clock {
            d = d.clock_rate(c);
        }
        if let Some((v, f)) = self.ar {
            d = d.ar(v, f);
        }
        if let Some((v, f)) = self.cs {
            d = d.cs(v, f);
        }
        if let Some((v, f)) = self.hp {
            d = d.hp(v, f);
        }
        if let Some((v, f)) = self.od {
            d = d.od(v, f);
        }
        if let Some(p) = self.passed {
            d = d.passed_objects(p);
        }
        if let Some(h) = self.hro {
            d = d.hardrock_offsets(h);
        }
        if let Some(l) = self.lazer {
            d = d.lazer(l);
        }
        d
    }

    pub fn without_passed(&self) -> Self {
        Self {
            passed: None,
            ..self.clone()
        }
    }

    /// Settings for a gradual calculator in monitors that only compare a calculation with itself (same settings on both
    /// sides): half of the specs that carry `passed_objects` keep it - whatever a gradual calculator makes of it, it has to
    /// do so deterministically, identically in every build and on every thread, and without undefined behaviour.
    pub fn for_gradual(&self) -> Self {
        if self.passed.is_some_and(|p| p % 2 == 0) {
            self.clone()
        } else {
            self.without_passed()
        }
    }

    pub fn with_passed(&self, n: u32) -> Self {
        Self {
            passed: Some(n),
            ..self.clone()
        }
    }

    pub fn describe(&self) -> String {
        let mut s = format!("mods={}", self.mods.describe());
        if let Some(c) = self.clock {
            s.push_str(&format!(" clock={c}"));
        }
        for (n, v) in [("ar", self.ar), ("cs", self.cs), ("hp", self.hp), ("od", self.od)] {
            if let Some((v, f)) = v {
                s.push_str(&format!(" {n}={v}/{f}"));
            }
        }
        if let Some(p) = self.passed {
            s.push_str(&format!(" passed={p}"));
        }
        if let Some(h) = self.hro {
            s.push_str(&format!(" hro={h}"));
        }
        if let Some(l) = self.lazer {
            s.push_str(&format!(" lazer={l}"));
        }
        s
    }
}

/// Legacy combinations the game allows: EZ xor HR, one of DT/NC/HT, RX xor AP, at most one key mod.
pub fn gen_legacy_bits(rng: &mut Rng, mode: GameMode) -> u32 {
    let mut b = 0;
    if rng.chance(0.15) {
        b |= NF;
    }
    match rng.below(5) {
        0 => b |= EZ,
        1 | 2 => b |= HR,
        _ => {}
    }
    if rng.chance(0.25) {
        b |= HD;
    }
    match rng.below(8) {
        0 | 1 => b |= DT,
        2 => b |= NC,
        3 => b |= HT,
        _ => {}
    }
    if rng.chance(0.25) {
        b |= FL;
    }
    if mode == GameMode::Osu {
        if rng.chance(0.1) {
            b |= TD;
        }
        if rng.chance(0.1) {
            b |= SO;
        }
        match rng.below(10) {
            0 => b |= RX,
            1 => b |= AP,
            _ => {}
        }
    } else if rng.chance(0.05) {
        b |= RX;
    }
    if mode == GameMode::Mania && rng.chance(0.4) {
        b |= *rng.pick(KEY_MODS);
    }
    if rng.chance(0.05) {
        b |= SD;
    }
    b
}

pub fn gen_mods(rng: &mut Rng, mode: GameMode) -> ModSpec {
    let bits = gen_legacy_bits(rng, mode);
    let repr = *rng.pick(&[
        Repr::U32,
        Repr::U32,
        Repr::Legacy,
        Repr::Intermode,
        Repr::IntermodeRef,
        Repr::Lazer,
        Repr::Lazer,
    ]);
    let mut extra = LazerExtra::default();
    if repr == Repr::Lazer && rng.chance(0.6) {
        if rng.chance(0.3) {
            extra.cl = Some(*rng.pick(&[None, Some(true), Some(false)]));
        }
        if rng.chance(0.3) {
            let v = |rng: &mut Rng| -> Option<f64> {
                if rng.chance(0.5) {
                    Some((rng.range(0, 110) as f64) / 10.0)
                } else {
                    None
                }
            };
            extra.da = Some(Da {
                ar: v(rng),
                cs: v(rng),
                hp: v(rng),
                od: v(rng),
                hro: *rng.pick(&[None, None, Some(true), Some(false)]),
                scroll: if rng.chance(0.3) {
                    Some(rng.frange(0.4, 4.0))
                } else {
                    None
                },
            });
        }
        if rng.chance(0.15) {
            extra.mirror = Some(rng.pick(&[None, Some("0".to_string()), Some("1".to_string()), Some("2".to_string()), Some("x".to_string())]).clone());
        }
        if mode == GameMode::Mania {
            extra.ho = rng.chance(0.25);
            extra.invert = rng.chance(0.25);
        }
        if matches!(mode, GameMode::Mania | GameMode::Taiko) && rng.chance(0.3) {
            extra.random = Some(if rng.chance(0.8) {
                Some(rng.range(0, 100000) as f64)
            } else {
                None
            });
        }
        if mode == GameMode::Osu {
            extra.bl = rng.chance(0.1);
            extra.tc = rng.chance(0.1);
        }
        if bits & (DT | HT) != 0 && rng.chance(0.5) {
            extra.speed_change = Some(if bits & DT != 0 {
                (rng.range(101, 200) as f64) / 100.0
            } else {
                (rng.range(50, 99) as f64) / 100.0
            });
        }
        if bits & HT != 0 {
            extra.daycore = rng.chance(0.3);
        }
    }
    // a lazer mod set without any setting can equally be handed over as GameModsIntermode (owned or by reference):
    // mods without a legacy bit (CL, HO, IN, 10K, DC ...) travel through different conversion code that way
    let settings_free = extra.da.is_none()
        && extra.speed_change.is_none()
        && extra.cl.is_none_or(|c| c.is_none())
        && extra.mirror.is_none()
        && extra.random.is_none_or(|r| r.is_none());
    let repr = if repr == Repr::Lazer && settings_free && rng.chance(0.4) {
        if rng.chance(0.5) {
            Repr::LazerAsIntermode
        } else {
            Repr::LazerAsIntermodeRef
        }
    } else {
        repr
    };
    ModSpec { bits, repr, extra }
}

#[derive(Copy, Clone, Debug, PartialEq, Eq)]
pub enum SetDomain {
    /// settings reachable in the game: clock in [0.5, 2], overrides in [0, 11]
    Game,
    /// the documented ranges: clock 0.01..100, overrides -20..20
    Documented,
}

/// Mostly settings reachable in the game, one time in five anything inside the documented ranges (clock rate 0.01..100,
/// overrides -20..20): for monitors whose property quantifies over *all* settings.
pub fn gen_setspec_wide(rng: &mut Rng, mode: GameMode, map: &rosu_pp::Beatmap) -> SetSpec {
    let dom = if rng.chance(0.2) { SetDomain::Documented } else { SetDomain::Game };
    let mut s = gen_setspec(rng, mode, dom);
    // a tiny clock rate stretches the map: keep the number of strain sections (and with it the cost of a case) bounded
    if let Some(c) = s.clock {
        if c < 0.5 && crate::maps::est_sections(map, c.max(0.01)) > 60_000.0 {
            s.clock = Some(*rng.pick(&[0.5, 1.0, 3.0, 10.0]));
        }
    }
    s
}

/// Game-reachable settings, except that the clock rate is drawn from the whole documented range one time in five
/// (for monitors whose property quantifies over all clock rates but not over attribute overrides).
pub fn gen_setspec_wide_clock(rng: &mut Rng, mode: GameMode, map: &rosu_pp::Beatmap) -> SetSpec {
    let mut s = gen_setspec(rng, mode, SetDomain::Game);
    if rng.chance(0.2) {
        let c = if rng.chance(0.5) {
            *rng.pick(&[0.01, 0.1, 0.25, 3.0, 10.0, 100.0])
        } else {
            10f64.powf(rng.frange(-2.0, 2.0))
        };
        s.clock = Some(if c < 0.5 && crate::maps::est_sections(map, c) > 60_000.0 { 3.0 } else { c });
    }
    s
}

pub fn gen_setspec(rng: &mut Rng, mode: GameMode, dom: SetDomain) -> SetSpec {
    let mut s = SetSpec {
        mods: gen_mods(rng, mode),
        ..SetSpec::default()
    };
    if rng.chance(0.35) {
        s.clock = Some(match dom {
            SetDomain::Game => *rng.pick(&[0.5, 0.75, 1.0, 1.3, 1.5, 2.0, 1.25, 0.9, 1.1, 1.75, 0.0]),
            SetDomain::Documented => *rng.pick(&[0.01, 0.1, 0.5, 0.75, 1.0, 1.3, 1.5, 2.0, 10.0, 100.0, 0.0, 1000.0, 0.0]),
        });
        if s.clock == Some(0.0) {
            s.clock = Some(match dom {
                SetDomain::Game => rng.frange(0.5, 2.0),
                SetDomain::Documented => {
                    if rng.chance(0.7) {
                        rng.frange(0.5, 2.0)
                    } else {
                        10f64.powf(rng.frange(-2.0, 2.0))
                    }
                }
            });
        }
    }
    let ov = |rng: &mut Rng| -> Option<(f32, bool)> {
        if rng.chance(0.2) {
            let v = match dom {
                SetDomain::Game => (rng.range(0, 110) as f32) / 10.0,
                SetDomain::Documented => {
                    if rng.chance(0.7) {
                        (rng.range(0, 110) as f32) / 10.0
                    } else {
                        (rng.range(-200, 200) as f32) / 10.0
                    }
                }
            };
            Some((v, rng.chance(0.5)))
        } else {
            None
        }
    };
    s.ar = ov(rng);
    s.cs = ov(rng);
    s.hp = ov(rng);
    s.od = ov(rng);
    if rng.chance(0.15) {
        s.hro = Some(rng.chance(0.5));
    }
    if rng.chance(0.3) {
        s.lazer = Some(rng.chance(0.5));
    }
    s
}

// ---------------------------------------------------------------------------------------------
// score specifications

#[derive(Clone, Debug, Default, PartialEq)]
pub struct ScoreSpec {
    pub acc: Option<f64>,
    pub combo: Option<u32>,
    pub misses: Option<u32>,
    pub n300: Option<u32>,
    pub n100: Option<u32>,
    pub n50: Option<u32>,
    pub n_katu: Option<u32>,
    pub n_geki: Option<u32>,
    pub large_ticks: Option<u32>,
    pub small_ticks: Option<u32>,
    pub slider_ends: Option<u32>,
    pub worst: Option<bool>,
    pub state: Option<ScoreState>,
}

impl ScoreSpec {
    pub fn apply<'a>(&self, mut p: Performance<'a>) -> Performance<'a> {
        if let Some(st) = &self.state {
            p = p.state(st.clone());
        }
        if let Some(a) = self.acc {
            p = p.accuracy(a);
        }
        if let Some(v) = self.combo {
            p = p.combo(v);
        }
        if let Some(v) = self.misses {
            p = p.misses(v);
        }
        if let Some(v) = self.n300 {
            p = p.n300(v);
        }
        if let Some(v) = self.n100 {
            p = p.n100(v);
        }
        if let Some(v) = self.n50 {
            p = p.n50(v);
        }
        if let Some(v) = self.n_katu {
            p = p.n_katu(v);
        }
        if let Some(v) = self.n_geki {
            p = p.n_geki(v);
        }
        if let Some(v) = self.large_ticks {
            p = p.large_tick_hits(v);
        }
        if let Some(v) = self.small_ticks {
            p = p.small_tick_hits(v);
        }
        if let Some(v) = self.slider_ends {
            p = p.slider_end_hits(v);
        }
        if let Some(w) = self.worst {
            p = p.hitresult_priority(if w {
                HitResultPriority::WorstCase
            } else {
                HitResultPriority::BestCase
            });
        }
        p
    }

    pub fn describe(&self) -> String {
        format!("{self:?}")
    }
}

/// Random score specification; `n` is (roughly) the object count to scale the counts with.
pub fn gen_scorespec(rng: &mut Rng, n: u32) -> ScoreSpec {
    let hi = 2 * n + 2;
    let cnt = |rng: &mut Rng| -> Option<u32> {
        if rng.chance(0.3) {
            Some(match rng.below(5) {
                0 => 0,
                1 => rng.below(u64::from(n) + 1) as u32,
                2 => n,
                3 => rng.below(u64::from(hi) + 1) as u32,
                _ => rng.below(u64::from(n / 4) + 2) as u32,
            })
        } else {
            None
        }
    };
    let mut s = ScoreSpec::default();
    match rng.below(6) {
        0 => {} // nothing
        1 => {
            s.acc = Some(rng.frange(0.0, 100.0));
        }
        2 => {
            s.acc = Some(*rng.pick(&[100.0, 0.0, 99.0, 95.5, 50.0, 33.33, 101.0, -1.0]));
            s.misses = cnt(rng);
        }
        3 => {
            s.state = Some(gen_state(rng, n));
        }
        _ => {
            if rng.chance(0.4) {
                s.acc = Some(rng.frange(0.0, 100.0));
            }
            s.combo = cnt(rng);
            s.misses = cnt(rng);
            s.n300 = cnt(rng);
            s.n100 = cnt(rng);
            s.n50 = cnt(rng);
            s.n_katu = cnt(rng);
            s.n_geki = cnt(rng);
            s.large_ticks = cnt(rng);
            s.small_ticks = cnt(rng);
            s.slider_ends = cnt(rng);
        }
    }
    if rng.chance(0.3) {
        s.worst = Some(rng.chance(0.6));
    }
    s
}

/// Random score state: consistent partitions of `n`, all-miss, empty or over-specified.
pub fn gen_state(rng: &mut Rng, n: u32) -> ScoreState {
    let mut st = ScoreState::new();
    match rng.below(6) {
        0 => {} // zero state
        1 => {
            st.misses = n;
        }
        2 => {
            // over-specified
            let hi = u64::from(2 * n + 3);
            st.n300 = rng.below(hi) as u32;
            st.n100 = rng.below(hi) as u32;
            st.n50 = rng.below(hi) as u32;
            st.n_geki = rng.below(hi) as u32;
            st.n_katu = rng.below(hi) as u32;
            st.misses = rng.below(hi) as u32;
            st.max_combo = rng.below(4 * hi) as u32;
            st.osu_large_tick_hits = rng.below(hi) as u32;
            st.osu_small_tick_hits = rng.below(hi) as u32;
            st.slider_end_hits = rng.below(hi) as u32;
        }
        _ => {
            // random partition of n
            let mut rem = n;
            let take = |rng: &mut Rng, rem: &mut u32, p: f64| -> u32 {
                if *rem == 0 {
                    return 0;
                }
                let v = if rng.chance(p) {
                    rng.below(u64::from(*rem) + 1) as u32
                } else {
                    0
                };
                *rem -= v;
                v
            };
            st.misses = take(rng, &mut rem, 0.4).min(n / 3 + 1).min(n);
            rem = n - st.misses;
            st.n100 = take(rng, &mut rem, 0.6);
            st.n50 = take(rng, &mut rem, 0.4);
            st.n_katu = take(rng, &mut rem, 0.3);
            st.n_geki = take(rng, &mut rem, 0.3);
            st.n300 = rem;
            st.max_combo = rng.below(u64::from(2 * n) + 2) as u32;
            st.osu_large_tick_hits = rng.below(u64::from(n) + 1) as u32;
            st.osu_small_tick_hits = rng.below(u64::from(n) + 1) as u32;
            st.slider_end_hits = rng.below(u64::from(n) + 1) as u32;
        }
    }
    st
}
